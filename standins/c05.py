"""C05 bounded stand-in: rename on generated executable single- and multi-module programs.

Contract: (a) the rewritten occurrences are exactly the reported references, (b) references form a partition (asking
from any reported occurrence gives the same set), (c) renaming back restores the text byte for byte, (d) the renamed
program (file renames applied) runs with the same output.

Input space.  A program is assembled from 1-3 independent *strands*.  A strand is
    entity kind  x  where the entity is defined  x  optional re-exporting hop  x  where it is consumed  x
    how the consumer imports it  x  import at module level or inside a function  x  which uses are made of it  x
    a decoy (the same spelling bound to something unrelated)
and all strands of one program share one module skeleton (a regular or namespace package with a sub-module and a
nested sub-package, flat modules, an optional second search-path root), so that several strands meet in the same
modules.  Every identifier the program binds lexically (found with ``ast``: functions, classes, parameters, variables,
attributes, methods, modules, packages, aliases) is a rename candidate and every token occurrence of it in every file
is a possible cursor position.  The seven programs of the first version of this stand-in are kept as fixed programs.

Oracles.  The Python interpreter (the original and the rewritten program are executed in child processes and their
exit status and output compared), byte comparison of the file tree, the compiler's symbol table (``symtable``) for
the binding of plain names inside one module, and set equality of jedi's own answers for the clauses that say "the
same set".  A program that does not run, a symbol table that cannot be matched with the ast, ... raise: they are
defects of this file, never violations.

Safety.  A rename whose references reach a module outside the temporary project would, when applied, rewrite or
rename files of the Python installation.  Therefore (1) generated programs import nothing but their own modules and
none of their module names is importable in this interpreter (``ProgramCheck.check_self_contained`` raises
otherwise) and (2) before every ``Refactoring.apply()`` all changed files and both ends of all announced renames must
lie inside the work directory of the evaluation, which lies inside STANDIN_TMP (``ProgramCheck.outside``); otherwise
nothing is applied and the violation 'rename reaches files outside the project (not applied)' is reported.

Kinds of input.  Every violation carries ``'kind'``: the roles of the identifier (function, class, param, variable,
attribute, module, alias, imported) plus syntactic circumstances found with ``ast`` (alias, imported-under-an-alias,
nonlocal, global-statement, global-and-other-binding-in-one-module, keyword-argument-in-another-module,
comprehension-condition, imported-from-several-modules, in-namespace-package, short-name).  Of every
(label, kind) at most three violations are listed, all are counted."""
import ast
import io
import keyword
import multiprocessing
import os
import random
import shutil
import subprocess
import sys
import symtable
import tokenize
import traceback

# --------------------------------------------------------------------------------------------------------------------
# fixed programs (the first version of this stand-in; kept as a regression set)

FIXED_PROGRAMS = [
    # (files {relpath: text}, main module, extra search-path roots)
    ({'main.py': 'def compute(value, scale=2):\n    total = value * scale\n    return total\n\n'
                 'result = compute(3)\nprint(result, compute(value=4, scale=1))\n'},
     'main.py', []),
    ({'main.py': 'class Box:\n    size = 1\n    def __init__(self, item):\n        self.item = item\n'
                 '    def get(self):\n        return self.item, self.size\n\n'
                 'b = Box(5)\nprint(b.get(), b.item, Box.size)\n'},
     'main.py', []),
    ({'main.py': 'by_second = lambda pair: pair[1]\ntable = {"k": lambda arg: arg + 1}\n'
                 'print(by_second((1, 2)), table["k"](3))\n'
                 'def outer(n):\n    def inner(m):\n        return n + m\n    return inner\nprint(outer(1)(2))\n'},
     'main.py', []),
    ({'core.py': 'def übersetze(wort):\n    return wort.upper()\n\ncafé = 3\n\ndef plain(x):\n    return x\n',
      'app.py': 'from core import übersetze, café, plain\nprint(übersetze("a"), café, plain(1))\n',
      'main.py': 'import app\nimport core\nprint(core.übersetze("b"), core.plain(2))\n'},
     'main.py', []),
    ({'pkg/__init__.py': 'from pkg.util import helper\n', 'pkg/util.py': 'def helper(a):\n    return a * 2\n',
      'main.py': 'import pkg\nfrom pkg import util\nfrom pkg.util import helper as h\n'
                 'print(pkg.helper(1), util.helper(2), h(3))\n'},
     'main.py', []),
    ({'main.py': 'for idx in range(2):\n    print(idx)\nwith open(__file__) as fh:\n    data = fh.read(1)\n'
                 'try:\n    raise ValueError(data)\nexcept ValueError as err:\n    print(type(err).__name__)\n'
                 'x = [e * 2 for e in (1, 2)]\nprint(x)\n'},
     'main.py', []),
    # implicit namespace package split over two search-path roots
    ({'src1/plugins/alpha.py': 'def a():\n    return 1\n', 'src2/plugins/beta.py': 'def b():\n    return 2\n',
      'main.py': 'import plugins.alpha\nimport plugins.beta\nfrom plugins import alpha\n'
                 'print(plugins.alpha.a(), plugins.beta.b(), alpha.a())\n'},
     'main.py', ['src1', 'src2']),
]

# --------------------------------------------------------------------------------------------------------------------
# program generator

LOWER_NAMES = [
    'compute', 'value', 'scale', 'total', 'result', 'fetch', 'item', 'size', 'amount', 'ledger', 'widget', 'render',
    'depth', 'margin', 'weight', 'cursor', 'helper', 'offset', 'factor', 'bucket', 'beacon', 'anchor', 'branch',
    'carry', 'delta', 'energy', 'filter_it', 'gather', 'handle', 'index_of', 'joined', 'kernel', 'lookup', 'merge_it',
    'notch', 'origin', 'packet', 'quota', 'ratio', 'sample', 'ticket', 'update_it', 'vector', 'window', 'yield_it',
    'zone', 'armor', 'blend', 'crate', 'drift', 'ember', 'flint', 'grove', 'hinge', 'ivory', 'jolt', 'knack',
    'latch', 'mirth', 'nudge', 'orbit', 'plume', 'quill', 'ridge', 'spoke', 'thorn', 'umbra', 'vigor', 'whisk',
    'übersetze', 'café', 'maß', 'größe', 'naïve_x', 'señal',
]
SHORT_NAMES = ['fn', 'kv', 'ab', 'qz']          # at most two characters
UPPER_NAMES = ['Widget', 'Basket', 'Ledger', 'Canvas', 'Folder', 'Gadget', 'Harbor', 'Écran', 'Marker', 'Parcel']

KINDS = ['func', 'cls', 'const', 'globalvar', 'conddef', 'trydef', 'redef', 'refunc', 'inherit', 'closure',
         'decorated', 'descriptors', 'instance', 'loops', 'lambda_', 'unpack', 'annotated', 'starargs']
PROVIDER_LOCS = ['inline', 'flat', 'pkgsub', 'nested', 'pkginit', 'secondroot', 'nssplit']
HOPS = ['none', 'none', 'pkg_init', 'inner_init', 'flat_hop']
CONSUMER_LOCS = ['main', 'flat', 'sibling', 'deep']
FORMS = ['from_name', 'from_name_as', 'import_mod', 'import_mod_as', 'from_parent', 'from_parent_as', 'star',
         'fallback_try', 'fallback_if']
SCOPES = ['top', 'top', 'function']
DECOYS = ['none', 'local', 'attribute', 'othermodule']


class Skeleton:
    """module names shared by the strands of one program"""

    def __init__(self, rng, names):
        self.pkg, self.sub, self.inner, self.leaf, self.mod, self.twin, self.app, self.user, self.hop, self.extra, \
            self.user2, self.ns, self.nsmod, self.nsother = [names.lower() for _ in range(14)]
        self.namespace = rng.random() < 0.3      # the package has no __init__.py (unless somebody needs one)
        self.root2 = 'lib_' + names.lower()


class NamePool:
    def __init__(self, rng):
        self.rng = rng
        self.pool_lower = LOWER_NAMES[:]
        self.pool_upper = UPPER_NAMES[:]
        self.pool_short = SHORT_NAMES[:]
        rng.shuffle(self.pool_lower)
        rng.shuffle(self.pool_upper)
        rng.shuffle(self.pool_short)
        self.short_probability = 0.0

    def lower_(self):
        """a name of at least three characters"""
        return self.pool_lower.pop()

    def lower(self):
        if self.pool_short and self.rng.random() < self.short_probability:
            return self.pool_short.pop()
        return self.pool_lower.pop()

    def upper_(self):
        return self.pool_upper.pop()


class Module:
    def __init__(self, dotted, path, is_package):
        self.dotted = dotted
        self.path = path
        self.is_package = is_package
        self.imports = []
        self.body = []

    @property
    def package(self):
        if self.is_package:
            return self.dotted
        return self.dotted.rpartition('.')[0]

    def text(self):
        return ''.join(self.imports) + ''.join(self.body)


class Program:
    def __init__(self, rng, short_probability=0.0):
        self.rng = rng
        self.names = NamePool(rng)
        self.sk = Skeleton(rng, self.names)
        self.names.short_probability = short_probability
        self.modules = {}
        self.extra_roots = []
        self.need_init = set()
        self.tags = []
        self.main = self.module('main')

    def module(self, dotted, root=''):
        if dotted not in self.modules:
            parts = dotted.split('.')
            is_package = dotted in (self.sk.pkg, self.sk.pkg + '.' + self.sk.inner)
            rel = os.path.join(*parts)
            rel = os.path.join(rel, '__init__.py') if is_package else rel + '.py'
            if parts[0] == self.sk.pkg and dotted != self.sk.pkg:
                self.module_package(self.sk.pkg)
            if len(parts) > 2:
                self.module_package('.'.join(parts[:2]))
            self.modules[dotted] = Module(dotted, os.path.join(root, rel), is_package)
            if root and root not in self.extra_roots:
                self.extra_roots.append(root)
        return self.modules[dotted]

    def module_package(self, dotted):
        # remember the package; whether it gets an __init__.py is decided in files()
        self.need_init.add(dotted)

    def files(self):
        out = {}
        for m in self.modules.values():
            out[m.path] = m.text()
        for dotted in sorted(self.need_init):
            path = os.path.join(*dotted.split('.'), '__init__.py')
            if path not in out and not self.sk.namespace:
                out[path] = ''
        return out


def relative_spec(importer, target):
    """the relative spelling of module ``target`` seen from module ``importer`` or None"""
    pkg = importer.package
    if not pkg:
        return None
    cp, tp = pkg.split('.'), target.split('.')
    if cp[0] != tp[0]:
        return None
    c = 0
    while c < len(cp) and c < len(tp) and cp[c] == tp[c]:
        c += 1
    return '.' * (len(cp) - c + 1) + '.'.join(tp[c:])


class State:
    """how the exported names of an entity are reached from a module: ``module``.``prefix``.``namemap[name]``"""

    def __init__(self, module, prefix, namemap):
        self.module, self.prefix, self.namemap = module, prefix, namemap

    def heads(self):
        return [self.prefix[0]] if self.prefix else list(self.namemap.values())


def import_step(prog, importer, state, form, relative, combine):
    """-> (list of import statements, new state) for ``importer`` importing what ``state`` describes"""
    rng, names = prog.rng, prog.names
    target = state.module.dotted
    spec = target
    if relative:
        spec = relative_spec(importer, target) or target
    parent, _, last = target.rpartition('.')
    heads = state.heads()
    if form in ('from_parent', 'from_parent_as') and not parent:
        form = {'from_parent': 'import_mod', 'from_parent_as': 'import_mod_as'}[form]
    if form == 'star' and (state.prefix or any(h.startswith('_') for h in heads)):
        form = 'from_name'
    if form in ('from_name', 'from_name_as', 'star'):
        if form == 'star':
            stmts = ['from %s import *\n' % spec]
            alias = {h: h for h in heads}
        else:
            alias = {h: (names.lower_() if form == 'from_name_as' else h) for h in heads}
            items = ['%s as %s' % (h, alias[h]) if alias[h] != h else h for h in heads]
            if combine and len(items) > 1:
                stmts = ['from %s import %s\n' % (spec, ', '.join(items))]
            else:
                stmts = ['from %s import %s\n' % (spec, it) for it in items]
        if state.prefix:
            new = State(importer, [alias[state.prefix[0]]] + state.prefix[1:], state.namemap)
        else:
            new = State(importer, [], {k: alias[v] for k, v in state.namemap.items()})
        return stmts, new
    if form == 'import_mod':
        return ['import %s\n' % target], State(importer, target.split('.') + state.prefix, state.namemap)
    if form == 'import_mod_as':
        a = names.lower_()
        return ['import %s as %s\n' % (target, a)], State(importer, [a] + state.prefix, state.namemap)
    if form in ('from_parent', 'from_parent_as'):
        pspec = parent
        if relative:
            pspec = relative_spec(importer, parent) or parent
        a = names.lower_() if form == 'from_parent_as' else last
        item = '%s as %s' % (last, a) if a != last else last
        return ['from %s import %s\n' % (pspec, item)], State(importer, [a] + state.prefix, state.namemap)
    raise AssertionError(form)


def entity(prog, kind):
    """-> (source text, exported names, list of use expressions as functions of an accessor, tag names)"""
    n, rng = prog.names, prog.rng
    L, U = n.lower, n.upper_
    if kind == 'func':
        N, P, Q, T = L(), L(), L(), L()
        fstring = rng.random() < 0.4
        ret = 'f"{%s}+{%s!r}"' % (T, P) if fstring else '%s + 1' % T
        C = L()
        src = ('def %s(%s, %s=2):\n    %s = %s * %s\n    return %s\n\n\n%s = %s(1, %s=3)\n'
               % (N, P, Q, T, P, Q, ret, C, N, Q))
        uses = [lambda a: '%s(3)' % a(N), lambda a: '%s(4, 5)' % a(N), lambda a: '%s(7, %s=1)' % (a(N), Q),
                lambda a: '%s(%s=6)' % (a(N), P)]
        return src, [N], uses
    if kind == 'cls':
        N, A, P, F, M, Q, M2, C = U(), L(), L(), L(), L(), L(), L(), L()
        src = ('class %s:\n    %s = 3\n\n    def __init__(self, %s):\n        self.%s = %s\n\n'
               '    def %s(self, %s=1):\n        return self.%s + %s + self.%s\n\n'
               '    def %s(self):\n        return self.%s(%s=2) + %s(%s=1).%s\n\n\n%s = %s(%s=2).%s()\n'
               % (N, A, P, F, P, M, Q, F, Q, A, M2, M, Q, N, P, F, C, N, P, M2))
        uses = [lambda a: '%s(5).%s()' % (a(N), M), lambda a: '%s.%s' % (a(N), A), lambda a: '%s(2).%s' % (a(N), F),
                lambda a: '%s(1).%s(%s=4)' % (a(N), M, Q), lambda a: '%s(%s=8).%s' % (a(N), P, F),
                lambda a: '%s(3).%s()' % (a(N), M2)]
        return src, [N], uses
    if kind == 'const':
        N = L()
        src = '%s = 7\n' % N
        uses = [lambda a: '%s + 1' % a(N), lambda a: '[%s, %s]' % (a(N), a(N)), lambda a: '%s' % a(N)]
        return src, [N], uses
    if kind == 'globalvar':
        N, B, S = L(), L(), L()
        src = '%s = 0\n\n\ndef %s(%s=1):\n    global %s\n    %s = %s + %s\n    return %s\n' % (N, B, S, N, N, N, S, N)
        uses = [lambda a: '%s()' % a(B), lambda a: '%s(2)' % a(B), lambda a: '%s' % a(N), lambda a: '%s + 0' % a(N)]
        return src, [N, B], uses
    if kind == 'conddef':
        N, W, P = L(), L(), L()
        src = ('%s = len("ab") == 2\nif %s:\n    def %s(%s):\n        return %s + 1\nelse:\n'
               '    def %s(%s):\n        return %s - 1\n' % (W, W, N, P, P, N, P, P))
        uses = [lambda a: '%s(1)' % a(N), lambda a: '%s(2)' % a(N), lambda a: '%s(%s=3)' % (a(N), P)]
        return src, [N], uses
    if kind == 'trydef':
        N, E = L(), L()
        src = 'try:\n    %s = int("7")\nexcept ValueError as %s:\n    %s = len(str(%s))\n' % (N, E, N, E)
        uses = [lambda a: '%s' % a(N), lambda a: '%s * 2' % a(N)]
        return src, [N], uses
    if kind == 'redef':
        N = L()
        src = '%s = 2\n%s = %s * 3\n%s += 1\n' % (N, N, N, N)
        uses = [lambda a: '%s' % a(N), lambda a: '%s - 1' % a(N)]
        return src, [N], uses
    if kind == 'refunc':
        N, P, B = L(), L(), L()
        src = ('def %s(%s):\n    return %s + 1\n\n\n%s = %s(1)\n\n\ndef %s(%s):\n    return %s + %s\n'
               % (N, P, P, B, N, N, P, P, B))
        uses = [lambda a: '%s(1)' % a(N), lambda a: '%s(5)' % a(N)]
        return src, [N], uses
    if kind == 'inherit':
        B, N, A, M, M2 = U(), U(), L(), L(), L()
        src = ('class %s:\n    %s = 1\n\n    def %s(self):\n        return self.%s\n\n\n'
               'class %s(%s):\n    def %s(self):\n        return self.%s() + 1\n' % (B, A, M, A, N, B, M2, M))
        uses = [lambda a: '%s().%s()' % (a(N), M2), lambda a: '%s().%s()' % (a(N), M), lambda a: '%s.%s' % (a(N), A)]
        return src, [N], uses
    if kind == 'closure':
        N, P, C, I, Q = L(), L(), L(), L(), L()
        src = ('def %s(%s):\n    %s = %s\n\n    def %s(%s):\n        nonlocal %s\n        %s = %s + %s\n'
               '        return %s\n    return %s\n' % (N, P, C, P, I, Q, C, C, C, Q, C, I))
        uses = [lambda a: '%s(1)(2)' % a(N), lambda a: '%s(%s=3)(4)' % (a(N), P)]
        return src, [N], uses
    if kind == 'decorated':
        D, F, W, N, P = L(), L(), L(), L(), L()
        src = ('def %s(%s):\n    def %s(*args):\n        return %s(*args) + 1\n    return %s\n\n\n'
               '@%s\ndef %s(%s):\n    return %s\n' % (D, F, W, F, W, D, N, P, P))
        uses = [lambda a: '%s(3)' % a(N), lambda a: '%s(5)' % a(N)]
        return src, [N], uses
    if kind == 'descriptors':
        N, P, F, R, S, Q, K = U(), L(), L(), L(), L(), L(), L()
        src = ('class %s:\n    def __init__(self, %s):\n        self.%s = %s\n\n    @property\n    def %s(self):\n'
               '        return self.%s * 2\n\n    @staticmethod\n    def %s(%s):\n        return %s + 1\n\n'
               '    @classmethod\n    def %s(cls, %s):\n        return cls.%s(%s)\n'
               % (N, P, F, P, R, F, S, Q, Q, K, Q, S, Q))
        uses = [lambda a: '%s(3).%s' % (a(N), R), lambda a: '%s.%s(1)' % (a(N), S), lambda a: '%s.%s(2)' % (a(N), K)]
        return src, [N], uses
    if kind == 'instance':
        C, P, F, M, N = U(), L(), L(), L(), L()
        src = ('class %s:\n    def __init__(self, %s):\n        self.%s = %s\n\n    def %s(self):\n'
               '        return self.%s + 1\n\n\n%s = %s(3)\n' % (C, P, F, P, M, F, N, C))
        uses = [lambda a: '%s.%s()' % (a(N), M), lambda a: '%s.%s' % (a(N), F)]
        return src, [N], uses
    if kind == 'loops':
        N, P, T, I, S, E, H = L(), L(), L(), L(), L(), L(), L()
        src = ('def %s(%s):\n    %s = 0\n    for %s in range(%s):\n        %s += %s\n'
               '    %s = [%s * 2 for %s in range(%s) if %s]\n    with open(__file__) as %s:\n        %s.read(1)\n'
               '    return %s + sum(%s)\n' % (N, P, T, I, P, T, I, S, E, E, P, E, H, H, T, S))
        uses = [lambda a: '%s(3)' % a(N), lambda a: '%s(4)' % a(N)]
        return src, [N], uses
    if kind == 'lambda_':
        N, P, Q = L(), L(), L()
        src = '%s = lambda %s, %s=1: %s + %s\n' % (N, P, Q, P, Q)
        uses = [lambda a: '%s(1)' % a(N), lambda a: '%s(1, %s=2)' % (a(N), Q)]
        return src, [N], uses
    if kind == 'unpack':
        N, N2, I = L(), L(), L()
        src = '%s, %s = 1, 2\nfor %s in (3, 4):\n    %s = %s + %s\n' % (N, N2, I, N2, N2, I)
        uses = [lambda a: '%s' % a(N), lambda a: '%s' % a(N2), lambda a: '%s + %s' % (a(N), a(N2))]
        return src, [N, N2], uses
    if kind == 'annotated':
        C, N, P, V = U(), L(), L(), L()
        src = ('class %s:\n    pass\n\n\n%s: int = 3\n\n\ndef %s(%s: %s) -> %s:\n    return %s\n'
               % (C, V, N, P, C, C, P))
        uses = [lambda a: '%s(%s()) is None' % (a(N), a(C)), lambda a: '%s' % a(V),
                lambda a: 'isinstance(%s(%s()), %s)' % (a(N), a(C), a(C))]
        return src, [N, C, V], uses
    if kind == 'starargs':
        N, A, K, D = L(), L(), L(), L()
        C = L()
        src = ('def %s(*%s, %s=0, **%s):\n    return len(%s) + %s + len(%s)\n\n\n%s = %s(1, %s=2)\n'
               % (N, A, D, K, A, D, K, C, N, D))
        uses = [lambda a: '%s(1, 2)' % a(N), lambda a: '%s(1, %s=5)' % (a(N), D), lambda a: '%s(other=1)' % a(N)]
        return src, [N], uses
    raise AssertionError(kind)


def add_strand(prog, index, dims):
    """dims: kind, provider, hop, consumer, form, scope, relative, combine, decoy"""
    rng, names, sk = prog.rng, prog.names, prog.sk
    kind, provider, hop, consumer, form = dims['kind'], dims['provider'], dims['hop'], dims['consumer'], dims['form']
    src, exported, uses = entity(prog, kind)

    # where the consumer lives
    if consumer == 'main':
        cmod = prog.main
    elif consumer == 'flat':
        cmod = prog.module(sk.app)
    elif consumer == 'sibling':
        cmod = prog.module(sk.pkg + '.' + sk.user)
    else:
        cmod = prog.module(sk.pkg + '.' + sk.inner + '.' + sk.user2)

    # where the entity lives
    if provider == 'inline':
        pmod = cmod
    elif provider == 'flat':
        pmod = prog.module(sk.mod)
    elif provider == 'pkgsub':
        pmod = prog.module(sk.pkg + '.' + sk.sub)
    elif provider == 'nested':
        pmod = prog.module(sk.pkg + '.' + sk.inner + '.' + sk.leaf)
    elif provider == 'pkginit':
        pmod = prog.module(sk.pkg)
    elif provider == 'secondroot':
        pmod = prog.module(sk.extra, root=sk.root2)
    elif provider == 'nssplit':
        # an implicit namespace package with one portion in the second search-path root and one in the project
        pmod = prog.module(sk.ns + '.' + sk.nsmod, root=sk.root2)
        other = prog.module(sk.ns + '.' + sk.nsother)
        if not other.body:
            fn = names.lower_()
            other.body.append('def %s():\n    return "portion"\n\n\n' % fn)
            report(prog, other, fn, 'import_mod')
    else:
        raise AssertionError(provider)
    pmod.body.append(src + '\n\n')

    state = State(pmod, [], {e: e for e in exported})
    used_forms = []
    if provider != 'inline':
        # optional re-exporting hop
        hmod = None
        if hop == 'pkg_init' and provider in ('pkgsub', 'nested', 'flat', 'secondroot', 'nssplit'):
            hmod = prog.module(sk.pkg)
        elif hop == 'inner_init' and provider in ('nested', 'flat'):
            hmod = prog.module(sk.pkg + '.' + sk.inner)
        elif hop == 'flat_hop':
            hmod = prog.module(sk.hop)
        if hmod is not None and hmod is not cmod and hmod is not pmod:
            hform = dims['hop_form']
            stmts, state = import_step(prog, hmod, state, hform, dims['hop_relative'], dims['combine'])
            hmod.imports.extend(stmts)
            used_forms.append('hop:' + hform)

    lines = []          # import statements of the consumer
    fallback = None
    if provider != 'inline':
        if form in ('fallback_try', 'fallback_if'):
            if state.prefix or state.module is not pmod:
                form = 'from_name'
            else:
                tmod = prog.module(sk.twin)
                tmod.body.append(src + '\n\n')
                fallback = tmod
        if fallback is not None:
            stmts1, st1 = import_step(prog, cmod, state, 'from_name', dims['relative'], dims['combine'])
            stmts2, _ = import_step(prog, cmod, State(fallback, [], dict(state.namemap)), 'from_name', False,
                                    dims['combine'])
            state = st1
            lines = (stmts1, stmts2)
        else:
            lines, state = import_step(prog, cmod, state, form, dims['relative'], dims['combine'])
        used_forms.append(form)

    def acc(name):
        return '.'.join(state.prefix + [state.namemap[name]])

    k = max(1, min(len(uses), dims['nuses']))
    if fallback is not None and rng.random() < 0.7:
        k = len(uses)           # every imported name is also used after the conditional import
    chosen = rng.sample(uses, k)
    exprs = [u(acc) for u in chosen]

    # decoys: the same spelling bound to something unrelated
    decoy_calls = []
    decoy = dims['decoy']
    if decoy == 'local':
        fn = names.lower_()
        target = exported[0]
        dm = cmod if dims['scope'] == 'function' or provider == 'inline' or state.prefix else prog.module(sk.app)
        if dm is cmod and not (dims['scope'] == 'function' or state.prefix) and provider != 'inline':
            dm = prog.main if cmod is not prog.main else prog.module(sk.app)
        dm.body.append('def %s():\n    %s = 11\n    return %s + 1\n\n\n' % (fn, target, target))
        decoy_calls.append((dm, fn))
    elif decoy == 'attribute':
        cn, fn = names.upper_(), names.lower_()
        target = exported[0]
        dm = prog.module(sk.app) if rng.random() < 0.5 else pmod
        dm.body.append('class %s:\n    %s = 100\n\n    def %s(self):\n        return self.%s\n\n\n'
                       % (cn, target, fn, target))
        decoy_calls.append((dm, '%s().%s' % (cn, fn)))
    elif decoy == 'othermodule':
        target = exported[0]
        dm = prog.module(names.lower_())
        dm.body.append('def %s():\n    return "unrelated"\n\n\n' % target)
        decoy_calls.append((dm, target))

    run = names.lower_()
    scope = dims['scope']
    ind = '    '
    if fallback is not None:
        ntry = dims['ntry']
        probes = ['%s%s = %s\n' % (ind, names.lower_(), e) for e in (exprs * 3)[:ntry]]
        if form == 'fallback_try':
            block = ['try:\n'] + [ind + s for s in lines[0]] + probes + ['except ImportError:\n'] + \
                    [ind + s for s in lines[1]]
        else:
            flag = names.lower_()
            block = ['%s = len("x") == 1\n' % flag, 'if %s:\n' % flag] + [ind + s for s in lines[0]] + probes + \
                    ['else:\n'] + [ind + s for s in lines[1]]
        lines = block
    listing = '[' + ', '.join(exprs) + ']'
    if cmod is prog.main and scope == 'top':
        prog.main.body.append(''.join(lines) + 'print(%s)\n' % listing)
    elif scope == 'top':
        if fallback is not None:
            cmod.body.append(''.join(lines))
        else:
            cmod.imports.extend(lines)
        cmod.body.append('def %s():\n    return %s\n\n\n' % (run, listing))
    else:
        cmod.body.append('def %s():\n%s    return %s\n\n\n' % (run, ''.join(ind + s for s in lines), listing))
    if not (cmod is prog.main and scope == 'top'):
        report(prog, cmod, run, dims['report_form'])
    main_binds = cmod is prog.main and (provider == 'inline' or (scope == 'top' and not state.prefix))
    for dm, call in decoy_calls:
        # "from decoy_module import name" would rebind the name if main.py binds it itself
        report(prog, dm, call, 'import_mod' if '.' in call or '(' in call or main_binds else dims['report_form'])
    prog.tags.append('%s/%s/%s/%s/%s/%s' % (kind, provider, '+'.join(used_forms) or '-', consumer, scope, decoy))


def report(prog, module, call, form):
    """main prints ``module.call()``"""
    main = prog.main
    if module is main:
        main.body.append('print(%s())\n' % call)
    elif form == 'from_name' and '(' not in call and '.' not in call:
        main.body.append('from %s import %s\nprint(%s())\n' % (module.dotted, call, call))
    else:
        stmt = 'import %s\n' % module.dotted
        if stmt not in main.body:
            main.body.append(stmt)
        main.body.append('print(%s.%s())\n' % (module.dotted, call))


def random_dims(rng, forced=None):
    d = {
        'kind': rng.choice(KINDS), 'provider': rng.choice(PROVIDER_LOCS), 'hop': rng.choice(HOPS),
        'consumer': rng.choice(CONSUMER_LOCS), 'form': rng.choice(FORMS), 'scope': rng.choice(SCOPES),
        'relative': rng.random() < 0.5, 'combine': rng.random() < 0.5, 'decoy': rng.choice(DECOYS),
        'hop_form': rng.choice(['from_name', 'from_name', 'from_name_as', 'from_parent', 'from_parent',
                                'from_parent_as', 'import_mod', 'star']),
        'hop_relative': rng.random() < 0.6, 'nuses': rng.choice([1, 2, 2, 3, 4]), 'ntry': rng.choice([0, 1, 2, 2, 3]),
        'report_form': rng.choice(['import_mod', 'from_name']),
    }
    if forced:
        d.update(forced)
        # make the forced value effective
        if 'form' in forced or 'hop' in forced and forced['hop'] != 'none':
            if d['provider'] == 'inline':
                d['provider'] = rng.choice(PROVIDER_LOCS[1:])
        if forced.get('hop') == 'pkg_init' and d['provider'] not in ('pkgsub', 'nested', 'flat', 'secondroot',
                                                                     'nssplit'):
            d['provider'] = rng.choice(['pkgsub', 'pkgsub', 'nested'])
        if forced.get('hop') == 'inner_init' and d['provider'] not in ('nested', 'flat'):
            d['provider'] = 'nested'
        if forced.get('form') in ('fallback_try', 'fallback_if'):
            d['hop'] = 'none'
        if forced.get('form') in ('from_parent', 'from_parent_as') and d['hop'] == 'none' \
                and d['provider'] not in ('pkgsub', 'nested', 'nssplit'):
            d['provider'] = rng.choice(['pkgsub', 'nested', 'nssplit'])
        if forced.get('form') == 'star':
            d['scope'] = 'top'
        if forced.get('relative'):
            d['consumer'] = rng.choice(['sibling', 'deep'])
            if d['provider'] not in ('pkgsub', 'nested', 'pkginit'):
                d['provider'] = rng.choice(['pkgsub', 'nested', 'pkginit'])
    if d['form'] == 'star':
        d['scope'] = 'top'          # "import *" is only allowed at module level
    if d['provider'] == 'pkginit' and d['hop'] in ('pkg_init',):
        d['hop'] = 'none'
    return d


def coverage_list():
    """partial dimension assignments that together contain every single dimension value (and some pairs); make_jobs
    shuffles the list and forces its items, one after the other, onto the strands of the generated programs"""
    out = []
    for k in KINDS:
        out.append({'kind': k})
        out.append({'kind': k, 'provider': 'inline'})
    for p in PROVIDER_LOCS:
        out.append({'provider': p})
    for h in ('pkg_init', 'inner_init', 'flat_hop'):
        for i, hf in enumerate(('from_name', 'from_name_as', 'from_parent', 'from_parent_as', 'import_mod', 'star')):
            out.append({'hop': h, 'hop_form': hf, 'hop_relative': (i + (h == 'pkg_init')) % 2 == 0})
    for c in CONSUMER_LOCS:
        out.append({'consumer': c})
    for f in FORMS:
        for s in ('top', 'function'):
            out.append({'form': f, 'scope': s})
        out.append({'form': f, 'relative': True})
    for nt in (1, 2, 3):
        out.append({'form': 'fallback_try', 'ntry': nt})
        out.append({'form': 'fallback_if', 'ntry': nt})
    for d in DECOYS:
        out.append({'decoy': d})
    for k in ('globalvar', 'redef', 'refunc', 'conddef', 'trydef', 'unpack'):
        for f in ('from_name', 'import_mod', 'from_name_as', 'star'):
            out.append({'kind': k, 'form': f})
    return out


def generate_program(seed, index, forced):
    """deterministic in (seed, index, forced); ``forced`` holds one partial dimension assignment per strand"""
    rng = random.Random('C05/%d/%d' % (seed, index))
    prog = Program(rng, short_probability=0.04)
    for i, f in enumerate(forced):
        add_strand(prog, i, random_dims(rng, f))
    files = prog.files()
    return files, 'main.py', list(prog.extra_roots), prog.tags


# --------------------------------------------------------------------------------------------------------------------
# analysis of a program with the interpreter's own tools

def write_tree(root, files):
    for rel, text in files.items():
        p = os.path.join(root, rel)
        os.makedirs(os.path.dirname(p), exist_ok=True)
        with open(p, 'w', encoding='utf-8', newline='') as f:
            f.write(text)


def run_main(root, main, extra_roots=(), timeout=120):
    """execute the program in a fresh interpreter -> (exit status, stdout, tail of stderr)"""
    pp = os.pathsep.join([root] + [os.path.join(root, r) for r in extra_roots])
    p = subprocess.run([sys.executable, '-S', main], cwd=root, capture_output=True, text=True, timeout=timeout,
                       env={'PYTHONPATH': pp, 'PYTHONIOENCODING': 'utf-8', 'PATH': os.environ.get('PATH', ''),
                            'PYTHONDONTWRITEBYTECODE': '1', 'PYTHONHASHSEED': '0'})
    return p.returncode, p.stdout, p.stderr.replace(root, '<project>')[-300:]


def occurrences(text, ident):
    out = []
    for tok in tokenize.generate_tokens(io.StringIO(text).readline):
        if tok.type == tokenize.NAME and tok.string == ident:
            out.append(tok.start)
    return out


def name_tokens(text):
    out = {}
    for tok in tokenize.generate_tokens(io.StringIO(text).readline):
        if tok.type == tokenize.NAME and not keyword.iskeyword(tok.string):
            out.setdefault(tok.string, []).append(tok.start)
    return out


def read_tree(root):
    out = {}
    for d, dirs, files in os.walk(root):
        dirs[:] = [x for x in dirs if x != '__pycache__']
        for f in files:
            if f.endswith('.py'):
                p = os.path.join(d, f)
                out[os.path.relpath(p, root)] = open(p, encoding='utf-8', newline='').read()
    return out


def is_protocol_name(name):
    return name.startswith('__') and name.endswith('__')


def lexical_identifiers(files):
    """{identifier: set of roles} for everything the program binds lexically (by ``ast``)"""
    roles = {}

    def add(name, role):
        if name and not is_protocol_name(name) and name != '*':
            roles.setdefault(name, set()).add(role)

    for rel, text in files.items():
        tree = ast.parse(text)
        for node in ast.walk(tree):
            if isinstance(node, (ast.FunctionDef, ast.AsyncFunctionDef)):
                add(node.name, 'function')
            elif isinstance(node, ast.ClassDef):
                add(node.name, 'class')
            elif isinstance(node, ast.arg):
                add(node.arg, 'param')
            elif isinstance(node, ast.Name) and isinstance(node.ctx, ast.Store):
                add(node.id, 'variable')
            elif isinstance(node, ast.Attribute) and isinstance(node.ctx, ast.Store):
                add(node.attr, 'attribute')
            elif isinstance(node, ast.ExceptHandler):
                add(node.name, 'variable')
            elif isinstance(node, ast.Import):
                for a in node.names:
                    if a.asname:
                        add(a.asname, 'alias')
                    for part in a.name.split('.'):
                        add(part, 'module')
            elif isinstance(node, ast.ImportFrom):
                for part in (node.module or '').split('.'):
                    add(part, 'module')
                for a in node.names:
                    if a.asname:
                        add(a.asname, 'alias')
                    add(a.name, 'imported')
    # module and package names that are files of the program
    for rel in files:
        parts = rel[:-3].split(os.sep)
        if parts[-1] == '__init__':
            parts = parts[:-1]
        for part in parts:
            add(part, 'module')
    for name in roles:
        if len(roles[name]) > 1:
            roles[name].discard('imported')
    return roles


def identifier_features(files, extra_roots=()):
    """{identifier: sorted list of syntactic circumstances} (by ``ast``); they make the kind of input of a violation
    recognisable: an identifier bound by ``as``, declared nonlocal/global, used as keyword argument in a module that
    does not define the parameter, ..."""
    feats = {}

    def add(name, f):
        if name:
            feats.setdefault(name, set()).add(f)

    params, keywords = {}, {}
    for rel, text in files.items():
        tree = ast.parse(text)
        import_bindings = {}
        globals_here, attrs_here = set(), set()
        # a module in a directory without __init__.py that is not a search-path root: its own name, what it binds
        # at module level and what it imports relatively
        in_namespace_package = os.sep in rel and os.path.dirname(rel) not in extra_roots and \
            os.path.join(os.path.dirname(rel), '__init__.py') not in files
        if in_namespace_package:
            add(os.path.basename(rel)[:-3], 'in-namespace-package')
            for st in tree.body:
                if isinstance(st, (ast.FunctionDef, ast.ClassDef)):
                    add(st.name, 'in-namespace-package')
                for n in ast.walk(st) if isinstance(st, (ast.Assign, ast.AnnAssign, ast.AugAssign, ast.For)) else ():
                    if isinstance(n, ast.Name) and isinstance(n.ctx, ast.Store):
                        add(n.id, 'in-namespace-package')
        for node in ast.walk(tree):
            if isinstance(node, (ast.Import, ast.ImportFrom)):
                for a in node.names:
                    if a.asname:
                        add(a.asname, 'alias')
                        add(a.name.split('.')[-1], 'imported-under-an-alias')
                    bound = a.asname or a.name.split('.')[0]
                    source = (getattr(node, 'module', None), getattr(node, 'level', 0), a.name)
                    import_bindings.setdefault(bound, set()).add(source)
                if isinstance(node, ast.ImportFrom) and node.level and in_namespace_package:
                    for part in (node.module or '').split('.') + [a.name for a in node.names]:
                        add(part, 'in-namespace-package')
            elif isinstance(node, ast.Nonlocal):
                for n in node.names:
                    add(n, 'nonlocal')
            elif isinstance(node, ast.Global):
                for n in node.names:
                    add(n, 'global-statement')
                    globals_here.add(n)
            elif isinstance(node, ast.arg):
                params.setdefault(node.arg, set()).add(rel)
            elif isinstance(node, ast.keyword) and node.arg:
                keywords.setdefault(node.arg, set()).add(rel)
            elif isinstance(node, (ast.ListComp, ast.SetComp, ast.DictComp, ast.GeneratorExp)):
                for gen in node.generators:
                    targets = {n.id for n in ast.walk(gen.target) if isinstance(n, ast.Name)}
                    for cond in gen.ifs:
                        for n in ast.walk(cond):
                            if isinstance(n, ast.Name) and n.id in targets:
                                add(n.id, 'comprehension-condition')
            elif isinstance(node, ast.Attribute):
                attrs_here.add(node.attr)
            elif isinstance(node, ast.ClassDef):
                for st in node.body:
                    for n in ast.walk(st) if isinstance(st, (ast.Assign, ast.AnnAssign, ast.AugAssign)) else ():
                        if isinstance(n, ast.Name) and isinstance(n.ctx, ast.Store):
                            attrs_here.add(n.id)
            elif isinstance(node, (ast.FunctionDef, ast.AsyncFunctionDef)):
                declared = {n for st in ast.walk(node) if isinstance(st, ast.Global) for n in st.names}
                for n in ast.walk(node):
                    if isinstance(n, ast.Name) and isinstance(n.ctx, ast.Store) and n.id not in declared:
                        attrs_here.add(n.id)        # a local variable
                    elif isinstance(n, ast.arg):
                        attrs_here.add(n.arg)
        for n in globals_here & attrs_here:
            add(n, 'global-and-other-binding-in-one-module')
        for bound, sources in import_bindings.items():
            if len(sources) > 1:
                add(bound, 'imported-from-several-modules')
    for name, mods in keywords.items():
        if name in params and mods - params[name]:
            add(name, 'keyword-argument-in-another-module')
    return {k: sorted(v) for k, v in feats.items()}


def _char_col(lines, lineno, byte_col):
    return len(lines[lineno - 1].encode('utf-8')[:byte_col].decode('utf-8'))


def lexical_bindings(text):
    """{(line, col): binding id} for plain names, parameters and def/class names of one module, resolved with the
    compiler's symbol table.  Names bound by a comprehension anywhere in the module are left out (their scope is an
    implementation detail of the interpreter version)."""
    tree = ast.parse(text)
    top = symtable.symtable(text, '<module>', 'exec')
    lines = text.split('\n')
    toks = [t for t in tokenize.generate_tokens(io.StringIO(text).readline)]
    name_pos_after = {}
    for i, t in enumerate(toks):
        if t.type == tokenize.NAME and t.string in ('def', 'class'):
            name_pos_after[t.start] = toks[i + 1].start
    skip = set()
    for node in ast.walk(tree):
        if isinstance(node, (ast.ListComp, ast.SetComp, ast.DictComp, ast.GeneratorExp)):
            for gen in node.generators:
                for n in ast.walk(gen.target):
                    if isinstance(n, ast.Name):
                        skip.add(n.id)
    out = {}
    counter = [0]

    def resolve(name, chain):
        table, sid = chain[-1]
        try:
            sym = table.lookup(name)
        except KeyError:
            return None
        if sym.is_global():
            return (chain[0][1], name)
        if sym.is_local():
            return (sid, name)
        if sym.is_free():
            for table2, sid2 in reversed(chain[:-1]):
                if table2.get_type() == 'class':
                    continue
                try:
                    s2 = table2.lookup(name)
                except KeyError:
                    continue
                if s2.is_local():
                    return (sid2, name)
            return None
        return None

    def record(line, col, name, chain):
        if name in skip:
            return
        b = resolve(name, chain)
        if b is not None:
            out[(line, col)] = b

    def child_table(chain, name, lineno, used):
        table = chain[-1][0]
        for i, c in enumerate(table.get_children()):
            if (id(table), i) not in used and c.get_name() == name and c.get_lineno() == lineno:
                used.add((id(table), i))
                counter[0] += 1
                return chain + [(c, counter[0])]
        raise RuntimeError('no symbol table for %s at line %d' % (name, lineno))

    used = set()

    def visit(node, chain):
        if isinstance(node, (ast.FunctionDef, ast.AsyncFunctionDef)):
            for d in node.decorator_list:
                visit(d, chain)
            for d in node.args.defaults + [x for x in node.args.kw_defaults if x is not None]:
                visit(d, chain)
            for a in node.args.posonlyargs + node.args.args + node.args.kwonlyargs + \
                    [x for x in (node.args.vararg, node.args.kwarg) if x is not None]:
                if a.annotation is not None:
                    visit(a.annotation, chain)
            if node.returns is not None:
                visit(node.returns, chain)
            kwpos = None
            for start in name_pos_after:
                if start[0] == node.lineno and start[1] >= _char_col(lines, node.lineno, node.col_offset):
                    if kwpos is None or start < kwpos:
                        kwpos = start
            if kwpos is None:
                raise RuntimeError('no def token for %s' % node.name)
            p = name_pos_after[kwpos]
            record(p[0], p[1], node.name, chain)
            inner = child_table(chain, node.name, node.lineno, used)
            for a in node.args.posonlyargs + node.args.args + node.args.kwonlyargs + \
                    [x for x in (node.args.vararg, node.args.kwarg) if x is not None]:
                record(a.lineno, _char_col(lines, a.lineno, a.col_offset), a.arg, inner)
            for s in node.body:
                visit(s, inner)
            return
        if isinstance(node, ast.Lambda):
            for d in node.args.defaults + [x for x in node.args.kw_defaults if x is not None]:
                visit(d, chain)
            inner = child_table(chain, 'lambda', node.lineno, used)
            for a in node.args.posonlyargs + node.args.args + node.args.kwonlyargs + \
                    [x for x in (node.args.vararg, node.args.kwarg) if x is not None]:
                record(a.lineno, _char_col(lines, a.lineno, a.col_offset), a.arg, inner)
            visit(node.body, inner)
            return
        if isinstance(node, ast.ClassDef):
            for d in node.decorator_list + node.bases + [k.value for k in node.keywords]:
                visit(d, chain)
            kwpos = None
            for start in name_pos_after:
                if start[0] == node.lineno and start[1] >= _char_col(lines, node.lineno, node.col_offset):
                    if kwpos is None or start < kwpos:
                        kwpos = start
            if kwpos is None:
                raise RuntimeError('no class token for %s' % node.name)
            p = name_pos_after[kwpos]
            record(p[0], p[1], node.name, chain)
            inner = child_table(chain, node.name, node.lineno, used)
            for s in node.body:
                visit(s, inner)
            return
        if isinstance(node, (ast.ListComp, ast.SetComp, ast.DictComp, ast.GeneratorExp)):
            # names of comprehensions are skipped as a whole (see docstring), but nested scopes must be consumed
            for child in ast.iter_child_nodes(node):
                visit_comprehension(child, chain)
            return
        if isinstance(node, ast.Name):
            record(node.lineno, _char_col(lines, node.lineno, node.col_offset), node.id, chain)
            return
        for child in ast.iter_child_nodes(node):
            visit(child, chain)

    def visit_comprehension(node, chain):
        for n in ast.walk(node):
            if isinstance(n, (ast.Lambda, ast.FunctionDef, ast.ClassDef)):
                raise RuntimeError('scopes inside comprehensions are not generated')
        for n in ast.walk(node):
            if isinstance(n, ast.Name) and n.id not in skip:
                # evaluated in the enclosing scope as far as non-comprehension names are concerned
                record(n.lineno, _char_col(lines, n.lineno, n.col_offset), n.id, chain)

    for stmt in tree.body:
        visit(stmt, [(top, 0)])
    return out


# --------------------------------------------------------------------------------------------------------------------
# the checks

L_PARTITION = 'references are not a partition (asking from a reported occurrence gives a different set)'
L_EXACT = 'rename does not rewrite exactly the reported references'
L_BEHAVIOUR = 'renamed program behaves differently'
L_BACK = 'renaming back does not restore the original text'
L_RAISED = 'rename raised'
L_SELF = 'the occurrence under the cursor is not among its references'
L_MISSING = 'references miss an occurrence the compiler binds to the same variable'
L_SPURIOUS = 'references include an occurrence the compiler binds to a different variable'
L_FLOW = 'flow_analysis_enabled is not restored after get_references'
L_OUTSIDE = 'rename reaches files outside the project (not applied)'


class ProgramCheck:
    def __init__(self, jedi, tmp, index, files, main, extra_roots, tags, seed=0, back_limit=1):
        self.jedi = jedi
        self.index = index
        self.seed = '%s/%s' % (seed, index)
        self.run_cache = {}
        self.back_count = {}
        self.flow_reported = False
        self.back_limit = back_limit
        self.environment = jedi.InterpreterEnvironment()
        self.files, self.main, self.extra_roots, self.tags = files, main, extra_roots, tags
        self.dir = os.path.join(tmp, 'p%d' % index)
        self.src = os.path.join(self.dir, 'src')
        self.nwork = 0
        self.memo = {}
        self.violations = []
        self.evaluations = 0
        self.nontrivial = 0
        self.bindings = {}

    def outside(self, refactoring, root):
        """paths a refactoring would write or rename that are not inside ``root``; such a refactoring must never be
        applied (it would damage the Python installation or the tree under test)"""
        tmp_real = os.path.join(os.path.realpath(os.environ['STANDIN_TMP']), '')
        root_real = os.path.join(os.path.realpath(root), '')
        if not root_real.startswith(tmp_real):
            raise RuntimeError('work directory %r is not inside STANDIN_TMP' % root)
        paths = list(refactoring.get_changed_files())
        for old, new in refactoring.get_renames():
            paths += [old, new]
        bad = []
        for p in paths:
            if p is None or not os.path.join(os.path.realpath(str(p)), '').startswith(root_real):
                bad.append(str(p))
        return bad

    def check_self_contained(self):
        """harness precondition: every import of the program resolves to a file of the program and no module of the
        program shadows or is shadowed by an importable module of the installation"""
        tops = set()
        for rel in self.files:
            parts = rel.split(os.sep)
            if parts[0] in self.extra_roots:
                parts = parts[1:]
            tops.add(parts[0][:-3] if parts[0].endswith('.py') else parts[0])
        import importlib.util
        for t in sorted(tops):
            if t in sys.stdlib_module_names or t in sys.builtin_module_names or t in sys.modules:
                raise RuntimeError('program module %r has the name of a standard library module' % t)
            try:
                spec = importlib.util.find_spec(t)
            except (ImportError, ValueError):
                spec = None
            if spec is not None:
                raise RuntimeError('program module %r is importable from the installation: %r' % (t, spec.origin))
        for rel, text in self.files.items():
            for node in ast.walk(ast.parse(text)):
                if isinstance(node, ast.Import):
                    mods = [a.name for a in node.names]
                elif isinstance(node, ast.ImportFrom) and node.level == 0:
                    mods = [node.module]
                else:
                    continue
                for m in mods:
                    if m.split('.')[0] not in tops:
                        raise RuntimeError('program imports %r which is not part of the program' % m)

    def project(self, root):
        return self.jedi.Project(root, added_sys_path=[os.path.join(root, r) for r in self.extra_roots])

    def script(self, root, rel):
        path = os.path.join(root, rel)
        with open(path, encoding='utf-8', newline='') as f:
            code = f.read()
        # the environment of this very interpreter: compiled modules (builtins) are inspected in-process instead of
        # through jedi's helper subprocess, whose round trips dominate the wall time on a busy machine
        return self.jedi.Script(code, path=path, project=self.project(root), environment=self.environment)

    def refs_at(self, root, rel, pos):
        s = self.script(root, rel)
        try:
            names = s.get_references(pos[0], pos[1], include_builtins=False)
        finally:
            flow = getattr(s._inference_state, 'flow_analysis_enabled', True)
        refs = set()
        for r in names:
            if r.module_path is not None:
                refs.add((os.path.relpath(str(r.module_path), root), r.line, r.column))
        return s, refs, flow

    def refs(self, rel, pos):
        """references asked on the pristine tree, memoised; None when jedi gives up with RecursionError"""
        key = (rel, pos)
        if key not in self.memo:
            try:
                _, refs, flow = self.refs_at(self.src, rel, pos)
            except RecursionError:
                refs, flow = None, True
            self.memo[key] = refs
            if flow is not True and not self.flow_reported:
                self.flow_reported = True         # once per program is enough
                self.add(L_FLOW, {'name': None, 'at': key}, 'flow_analysis_enabled == %r' % (flow,), 'state')
        return self.memo[key]

    def add(self, label, inp, observed, role):
        inp = dict(inp)
        inp['kind'] = role
        inp['program'] = self.index
        inp['strands'] = self.tags
        inp['files'] = self.files
        self.violations.append({'label': label, 'input': repr(inp), 'observed': observed.replace(self.dir, '<tmp>'),
                                'role': role})

    def textual(self, refs, ident):
        out = []
        for (rrel, rl, rc) in sorted(refs):
            lines = self.files.get(rrel, '').split('\n')
            if rl is not None and rl <= len(lines) and lines[rl - 1][rc:rc + len(ident)] == ident:
                out.append((rrel, rl, rc))
        return out

    def run(self, rng, per_pair, local_share=1.0):
        self.check_self_contained()
        os.makedirs(self.src)
        write_tree(self.src, self.files)
        rc0, out0, err0 = run_main(self.src, self.main, self.extra_roots)
        if rc0 != 0:
            raise RuntimeError('generated program %d does not run: %s\n%r' % (self.index, err0, self.files))
        self.out0 = (rc0, out0)
        roles = lexical_identifiers(self.files)
        features = identifier_features(self.files, self.extra_roots)
        self.import_bound = {}
        self.keyword_names = {n.arg for text in self.files.values() for n in ast.walk(ast.parse(text))
                              if isinstance(n, ast.keyword) and n.arg}
        for rel, text in self.files.items():
            self.bindings[rel] = lexical_bindings(text)
            bound = set()
            for node in ast.walk(ast.parse(text)):
                if isinstance(node, (ast.Import, ast.ImportFrom)):
                    for a in node.names:
                        bound.add(a.asname or a.name.split('.')[0])
            self.import_bound[rel] = bound
        starts = []
        all_toks = {rel: name_tokens(self.files[rel]) for rel in self.files}
        spread = {}
        for rel in all_toks:
            for ident in all_toks[rel]:
                spread[ident] = spread.get(ident, 0) + 1
        for rel in sorted(self.files):
            toks = all_toks[rel]
            for ident in sorted(toks):
                if ident not in roles:
                    continue
                if local_share < 1 and spread[ident] == 1 and 'module' not in roles[ident] \
                        and rng.random() >= local_share:
                    continue        # quick tier: identifiers that occur in one file only are sampled
                occs = toks[ident]
                if per_pair is not None and len(occs) > per_pair:
                    occs = sorted(rng.sample(occs, per_pair))
                for pos in occs:
                    starts.append((ident, rel, pos))
        for ident, rel, pos in starts:
            self.evaluations += 1
            role = '+'.join(sorted(roles[ident]) + [f for f in features.get(ident, []) if f not in roles[ident]] +
                            (['short-name'] if len(ident) <= 2 else []))
            self.evaluate(ident, rel, pos, role, rng)
        shutil.rmtree(self.dir, ignore_errors=True)
        return starts

    def evaluate(self, ident, rel, pos, role, rng):
        # the cursor is on any character of the identifier, not only on the first
        cursor = (pos[0], pos[1] + rng.randrange(len(ident)))
        where = {'name': ident, 'at': (rel, pos), 'cursor_column': cursor[1]}
        self.nwork += 1
        work = os.path.join(self.dir, 'w%d' % self.nwork)
        os.makedirs(work)
        try:
            write_tree(work, self.files)
            self.evaluate_in(work, ident, rel, pos, cursor, where, role, rng)
        finally:
            shutil.rmtree(work, ignore_errors=True)

    def evaluate_in(self, work, ident, rel, pos, cursor, where, role, rng):
        jedi = self.jedi
        # the same Script answers get_references and then rename (a copy of the program of its own, so that
        # apply() can be used); all other questions are asked on the pristine copy and memoised
        try:
            s, refs, flow = self.refs_at(work, rel, cursor)
        except RecursionError:
            return
        except Exception:
            self.add(L_RAISED, where, traceback.format_exc(limit=6), role)
            return
        if flow is not True and not self.flow_reported:
            self.flow_reported = True
            self.add(L_FLOW, where, 'flow_analysis_enabled == %r' % (flow,), 'state')
        self.memo.setdefault((rel, cursor), refs)
        if (rel, pos[0], pos[1]) not in refs:
            self.add(L_SELF, where, 'references %r' % sorted(refs), role)
            if not refs:
                return
        text_refs = self.textual(refs, ident)
        if len(text_refs) > 1:
            self.nontrivial += 1
        # (b) partition
        for (rrel, rl, rc) in text_refs:
            try:
                other = self.refs(rrel, (rl, rc))
            except Exception:
                self.add(L_RAISED, {'name': ident, 'at': (rrel, (rl, rc))}, traceback.format_exc(limit=6), role)
                break
            if other is not None and other != refs:
                self.add(L_PARTITION, {'name': ident, 'asked': (rel, pos), 'then': (rrel, rl, rc)},
                         'first %r, then %r' % (sorted(refs), sorted(other)), role)
                break
        # the compiler's view of plain names within the module under the cursor
        bind = self.bindings[rel]
        mine = bind.get(pos)
        if mine is not None:
            same = sorted(p for p, b in bind.items() if b == mine)
            missing = [p for p in same if (rel, p[0], p[1]) not in refs]
            if missing:
                self.add(L_MISSING, where, 'missing %r of %r; references %r' % (missing, same, sorted(refs)), role)
            # an imported name means the same object in whatever scope it is imported
            # and parameters of alternative definitions are linked through a call that passes them by keyword
            toks = [] if ident in self.import_bound[rel] or ident in self.keyword_names \
                else name_tokens(self.files[rel]).get(ident, [])
            spurious = [p for p in toks if p in bind and bind[p] != mine and (rel, p[0], p[1]) in refs]
            if spurious:
                self.add(L_SPURIOUS, where, 'spurious %r; references %r' % (spurious, sorted(refs)), role)

        # one fresh name per identifier, so that cursors in the same reference class give the same rewritten program
        new = random.Random('C05/new/%s/%s' % (self.seed, ident)).choice([ident + '_renamed', 'renamed_' + ident, 'zq9'])
        where['new_name'] = new
        refs_w = refs
        try:
            ref = s.rename(cursor[0], cursor[1], new_name=new)
            changed = {os.path.relpath(str(p), work): cf.get_new_code() for p, cf in
                       ref.get_changed_files().items()}
            # (a) rewritten occurrences == reported references, in every file of the program
            for prel in sorted(set(self.files) | set(changed)):
                old_t = self.files.get(prel)
                if old_t is None:
                    self.add(L_EXACT, dict(where, file=prel), 'a file that is not part of the program is changed',
                             role)
                    continue
                want = old_t.split('\n')
                mine_here = sorted((r for r in refs_w if r[0] == prel and r[1] is not None), reverse=True)
                for (_, rl, rc) in mine_here:
                    if rl <= len(want) and want[rl - 1][rc:rc + len(ident)] == ident:
                        want[rl - 1] = want[rl - 1][:rc] + new + want[rl - 1][rc + len(ident):]
                want = '\n'.join(want)
                new_t = changed.get(prel, old_t)
                if new_t != want:
                    self.add(L_EXACT, dict(where, file=prel),
                             'new code %r, expected %r' % (new_t[:300], want[:300]), role)
            outside = self.outside(ref, work)
            if outside:
                # NEVER apply such a refactoring: it would rewrite or rename files of the Python installation
                self.add(L_OUTSIDE, where, 'paths %r; references %r' % (outside, sorted(refs_w)), role)
                return
            ref.apply()
            # (d) same behaviour
            after = read_tree(work)
            tree_key = tuple(sorted(after.items()))
            if tree_key not in self.run_cache:       # identical rewritten programs are executed once
                try:
                    self.run_cache[tree_key] = run_main(work, self.main, self.extra_roots, timeout=60)
                except subprocess.TimeoutExpired:
                    self.run_cache[tree_key] = ('timeout', '', '')
            rc1, out1, err1 = self.run_cache[tree_key]
            if (rc1, out1) != self.out0:
                self.add(L_BEHAVIOUR, where, 'rc %r out %r err %r (was %r); references %r'
                         % (rc1, out1[:120], err1, self.out0[1][:120], sorted(refs_w)), role)
                return
            # (c) rename back, asked from an occurrence of the new name
            cands = []
            for r2 in sorted(after):
                for p2 in occurrences(after[r2], new):
                    cands.append((r2, p2))
            self.back_count[tree_key] = self.back_count.get(tree_key, 0) + 1
            if cands and self.back_count[tree_key] <= self.back_limit:
                back_from = cands[rng.randrange(len(cands))]
                s2 = self.script(work, back_from[0])
                ref2 = s2.rename(back_from[1][0], back_from[1][1], new_name=ident)
                outside = self.outside(ref2, work)
                if outside:
                    self.add(L_OUTSIDE, dict(where, back_from=back_from), 'paths %r' % (outside,), role)
                    return
                ref2.apply()
                final = read_tree(work)
                if final != self.files:
                    diff = sorted(k for k in set(final) | set(self.files) if final.get(k) != self.files.get(k))
                    self.add(L_BACK, dict(where, back_from=back_from), 'files differing: %r' % diff, role)
        except jedi.RefactoringError:
            pass
        except RecursionError:
            pass
        except Exception:
            self.add(L_RAISED, where, traceback.format_exc(limit=6), role)


def _worker(job):
    index, spec, seed, tier, tmp = job
    import jedi
    jedi.settings.cache_directory = os.path.join(tmp, 'cache_%d' % os.getpid())
    if spec[0] == 'fixed':
        files, main, extra_roots = FIXED_PROGRAMS[spec[1]]
        tags = ['fixed%d' % spec[1]]
    else:
        files, main, extra_roots, tags = generate_program(seed, spec[1], spec[2])
    rng = random.Random('C05/eval/%d/%d' % (seed, index))
    per_pair = 1 if tier == 'quick' else None
    if spec[0] == 'fixed' and tier == 'quick':
        per_pair = 2
    check = ProgramCheck(jedi, tmp, index, files, main, extra_roots, tags, seed, 1 if tier == 'quick' else 3)
    starts = check.run(rng, per_pair, 0.5 if tier == 'quick' and spec[0] != 'fixed' else 1.0)
    return index, check.evaluations, check.nontrivial, check.violations, \
        {'strands': tags, 'files': sorted(files), 'cursor_positions': len(starts)}


def make_jobs(seed, tier, tmp):
    n_generated = N_GENERATED[tier]
    cover = coverage_list()
    rng = random.Random('C05/cover/%d' % seed)
    rng.shuffle(cover)
    jobs = []
    for i in range(len(FIXED_PROGRAMS)):
        jobs.append((len(jobs), ('fixed', i), seed, tier, tmp))
    ptr = 0
    for i in range(n_generated):
        nstrands = rng.choice([1, 2, 2, 3, 3])
        forced = [cover[(ptr + k) % len(cover)] for k in range(nstrands)]
        ptr += nstrands
        jobs.append((len(jobs), ('generated', i, forced), seed, tier, tmp))
    return jobs


N_GENERATED = {'quick': 64, 'thorough': 320}


def run(repo, seed, tier):
    tmp = os.environ['STANDIN_TMP']
    jobs = make_jobs(seed, tier, tmp)
    n_generated = N_GENERATED[tier]
    workers = max(1, min(16, os.cpu_count() or 1))
    ctx = multiprocessing.get_context('fork')
    pool = ctx.Pool(workers)
    try:
        results = list(pool.imap_unordered(_worker, jobs, chunksize=1))
        pool.close()
        pool.join()
    except BaseException:
        pool.terminate()
        pool.join()
        raise
    results.sort(key=lambda r: r[0])
    evaluations = sum(r[1] for r in results)
    nontrivial = sum(r[2] for r in results)
    all_violations = [v for r in results for v in r[3]]
    # all violations are counted; of every (label, kind of input) at most three are shown, the first of every kind
    # before the second of any, so that a new kind of violation is never crowded out by the known ones
    counts, kind_counts, by_kind = {}, {}, {}
    for v in all_violations:
        counts[v['label']] = counts.get(v['label'], 0) + 1
        k = '%s | %s' % (v['label'], v.pop('role'))
        kind_counts[k] = kind_counts.get(k, 0) + 1
        by_kind.setdefault(k, []).append(v)
    shown = []
    for rank in range(3):
        for k in sorted(by_kind):
            if rank < len(by_kind[k]) and len(shown) < 60:
                shown.append(by_kind[k][rank])
    samples = [r[4] for r in results[len(FIXED_PROGRAMS):len(FIXED_PROGRAMS) + 3]]
    return {'name': 'C05.rename-programs', 'contract': 'C05.rename',
            'evaluations': evaluations, 'distinct_nontrivial': nontrivial,
            'rule': '%d fixed programs and %d generated executable programs, deterministic in the seed.  A generated '
                    'program is 1-3 strands of entity kind %r x definition site %r x re-exporting hop %r (with its own '
                    'import form) x consumer site %r x import form %r (absolute or relative, one statement or one per '
                    'name, at module level or inside a function, 0-3 uses inside a conditional import) x decoy %r (the '
                    'same spelling bound to something unrelated) over one shared package/module skeleton (regular or '
                    'namespace package, nested sub-package, flat modules, second search-path root); every single '
                    'dimension value is forced onto some program of the run.  Cursors: every identifier the program '
                    'binds (found with ast) x %s, on a random character of the identifier.  Per cursor: '
                    'get_references (the cursor must be among them); get_references from every reported occurrence '
                    'gives the same set; plain names agree with the symbol table of the compiler for the module under '
                    'the cursor; rename to a fresh name with the same Script and compare the new code of every file '
                    'with the reported references; apply (only if every written or renamed path lies inside the '
                    'temporary project) and execute the original and the rewritten program in child interpreters '
                    '(exit status and output must agree); rename back from a random occurrence of the new name and '
                    'compare the tree byte for byte; flow_analysis_enabled is restored after every query'
                    % (len(FIXED_PROGRAMS), n_generated, KINDS, PROVIDER_LOCS, sorted(set(HOPS)), CONSUMER_LOCS,
                       FORMS, DECOYS,
                       'one sampled token occurrence per file (identifiers occurring in one file only: every second '
                       'one)' if tier == 'quick' else 'every token occurrence in every file'),
            'samples': samples, 'violations': shown, 'violation_counts': counts,
            'violation_kind_counts': kind_counts}
