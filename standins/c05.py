"""C05 bounded stand-in: rename on small executable single- and multi-module programs.

Contract: (a) the rewritten occurrences are exactly the reported references, (b) references form a partition (asking
from any reported occurrence gives the same set), (c) renaming back restores the text byte for byte, (d) the renamed
program (file renames applied) runs with the same output."""
import os
import re
import shutil
import subprocess
import sys
import tempfile
import tokenize
import io
import traceback

PROGRAMS = [
    # (files {relpath: text}, main module, identifiers to rename)
    ({'main.py': 'def compute(value, scale=2):\n    total = value * scale\n    return total\n\n'
                 'result = compute(3)\nprint(result, compute(value=4, scale=1))\n'},
     'main.py', ['compute', 'value', 'scale', 'total', 'result']),
    ({'main.py': 'class Box:\n    size = 1\n    def __init__(self, item):\n        self.item = item\n'
                 '    def get(self):\n        return self.item, self.size\n\n'
                 'b = Box(5)\nprint(b.get(), b.item, Box.size)\n'},
     'main.py', ['Box', 'item', 'size', 'get', 'b']),
    ({'main.py': 'by_second = lambda pair: pair[1]\ntable = {"k": lambda arg: arg + 1}\n'
                 'print(by_second((1, 2)), table["k"](3))\n'
                 'def outer(n):\n    def inner(m):\n        return n + m\n    return inner\nprint(outer(1)(2))\n'},
     'main.py', ['pair', 'arg', 'by_second', 'n', 'm', 'inner']),
    ({'core.py': 'def übersetze(wort):\n    return wort.upper()\n\ncafé = 3\n\ndef plain(x):\n    return x\n',
      'app.py': 'from core import übersetze, café, plain\nprint(übersetze("a"), café, plain(1))\n',
      'main.py': 'import app\nimport core\nprint(core.übersetze("b"), core.plain(2))\n'},
     'main.py', ['übersetze', 'café', 'plain', 'wort']),
    ({'pkg/__init__.py': 'from pkg.util import helper\n', 'pkg/util.py': 'def helper(a):\n    return a * 2\n',
      'main.py': 'import pkg\nfrom pkg import util\nfrom pkg.util import helper as h\n'
                 'print(pkg.helper(1), util.helper(2), h(3))\n'},
     'main.py', ['helper', 'util', 'pkg']),
    ({'main.py': 'for idx in range(2):\n    print(idx)\nwith open(__file__) as fh:\n    data = fh.read(1)\n'
                 'try:\n    raise ValueError(data)\nexcept ValueError as err:\n    print(type(err).__name__)\n'
                 'x = [e * 2 for e in (1, 2)]\nprint(x)\n'},
     'main.py', ['idx', 'fh', 'data', 'err', 'e', 'x']),
    # implicit namespace package split over two search-path roots
    ({'src1/plugins/alpha.py': 'def a():\n    return 1\n', 'src2/plugins/beta.py': 'def b():\n    return 2\n',
      'main.py': 'import plugins.alpha\nimport plugins.beta\nfrom plugins import alpha\n'
                 'print(plugins.alpha.a(), plugins.beta.b(), alpha.a())\n'},
     'main.py', ['plugins', 'alpha'], ['src1', 'src2']),
]


def write_tree(root, files):
    for rel, text in files.items():
        p = os.path.join(root, rel)
        os.makedirs(os.path.dirname(p), exist_ok=True)
        with open(p, 'w', encoding='utf-8', newline='') as f:
            f.write(text)


def run_main(root, main, extra_roots=()):
    pp = os.pathsep.join([root] + [os.path.join(root, r) for r in extra_roots])
    p = subprocess.run([sys.executable, '-S', main], cwd=root, capture_output=True, text=True, timeout=60,
                       env={'PYTHONPATH': pp, 'PYTHONIOENCODING': 'utf-8', 'PATH': os.environ.get('PATH', '')})
    return p.returncode, p.stdout, p.stderr[-300:]


def occurrences(text, ident):
    out = []
    for tok in tokenize.generate_tokens(io.StringIO(text).readline):
        if tok.type == tokenize.NAME and tok.string == ident:
            out.append(tok.start)
    return out


def read_tree(root):
    out = {}
    for d, dirs, files in os.walk(root):
        dirs[:] = [x for x in dirs if x != '__pycache__']
        for f in files:
            if f.endswith('.py'):
                p = os.path.join(d, f)
                out[os.path.relpath(p, root)] = open(p, encoding='utf-8', newline='').read()
    return out


def refs_of(jedi, project, root, rel, pos):
    path = os.path.join(root, rel)
    s = jedi.Script(open(path, encoding='utf-8', newline='').read(), path=path, project=project)
    return s, {(os.path.relpath(str(r.module_path), root), r.line, r.column)
               for r in s.get_references(pos[0], pos[1], include_builtins=False) if r.module_path is not None}


def run(repo, seed, tier):
    import jedi
    violations = []
    evaluations = 0
    samples = []
    for prog in PROGRAMS:
        files, main, idents = prog[:3]
        extra_roots = prog[3] if len(prog) > 3 else []
        base = tempfile.mkdtemp(prefix='ren_', dir=os.environ['STANDIN_TMP'])
        try:
            write_tree(base, files)
            rc0, out0, err0 = run_main(base, main, extra_roots)
            if rc0 != 0:
                violations.append({'label': 'generated program does not run', 'input': repr(files), 'observed': err0})
                continue
            for ident in idents:
                for rel, text in files.items():
                    occs = occurrences(text, ident)
                    if tier == 'quick':
                        occs = occs[:2]
                    for pos in occs:
                        evaluations += 1
                        work = tempfile.mkdtemp(prefix='w_', dir=base + '_w') if False else tempfile.mkdtemp(
                            prefix='renw_', dir=os.environ['STANDIN_TMP'])
                        try:
                            write_tree(work, files)
                            project = jedi.Project(work, added_sys_path=[os.path.join(work, r) for r in extra_roots])
                            try:
                                s, refs = refs_of(jedi, project, work, rel, pos)
                                if not refs:
                                    continue
                                # (b) partition
                                for (rrel, rl, rc) in sorted(refs):
                                    rtext = files.get(rrel, '').split('\n')
                                    if rl > len(rtext) or rtext[rl - 1][rc:rc + len(ident)] != ident:
                                        continue    # a module reported at (1, 0): not an occurrence of the identifier
                                    _, other = refs_of(jedi, project, work, rrel, (rl, rc))
                                    if other != refs:
                                        violations.append({
                                            'label': 'references are not a partition (asking from a reported occurrence '
                                                     'gives a different set)',
                                            'input': repr({'name': ident, 'asked': (rel, pos), 'then': (rrel, rl, rc)}),
                                            'observed': 'first %r, then %r' % (sorted(refs), sorted(other))})
                                        break
                                new = ident + '_renamed'
                                ref = s.rename(pos[0], pos[1], new_name=new)
                                changed = ref.get_changed_files()
                                # (a) rewritten occurrences == reported references
                                for path, cf in changed.items():
                                    prel = os.path.relpath(str(path), work)
                                    old_t = open(str(path), encoding='utf-8', newline='').read()
                                    new_t = cf.get_new_code()
                                    want = old_t
                                    for (rrel, rl, rc) in sorted((r for r in refs if r[0] == prel), reverse=True):
                                        ls = want.split('\n')
                                        line = ls[rl - 1]
                                        if line[rc:rc + len(ident)] == ident:
                                            ls[rl - 1] = line[:rc] + new + line[rc + len(ident):]
                                        want = '\n'.join(ls)
                                    if new_t != want:
                                        violations.append({
                                            'label': 'rename does not rewrite exactly the reported references',
                                            'input': repr({'name': ident, 'at': (rel, pos), 'file': prel}),
                                            'observed': 'new code %r, expected %r' % (new_t[:200], want[:200])})
                                ref.apply()
                                # (d) same behaviour
                                rc1, out1, err1 = run_main(work, main, extra_roots)
                                if (rc1, out1) != (rc0, out0):
                                    violations.append({
                                        'label': 'renamed program behaves differently',
                                        'input': repr({'name': ident, 'at': (rel, pos)}),
                                        'observed': 'rc %r out %r err %r (was %r)' % (rc1, out1[:120], err1, out0[:120])})
                                    continue
                                # (c) rename back
                                after = read_tree(work)
                                back_from = None
                                for r2, t2 in after.items():
                                    o2 = occurrences(t2, new)
                                    if o2:
                                        back_from = (r2, o2[0])
                                        break
                                if back_from:
                                    p2 = jedi.Project(work, added_sys_path=[os.path.join(work, r) for r in extra_roots])
                                    path2 = os.path.join(work, back_from[0])
                                    s2 = jedi.Script(open(path2, encoding='utf-8', newline='').read(), path=path2, project=p2)
                                    s2.rename(back_from[1][0], back_from[1][1], new_name=ident).apply()
                                    final = read_tree(work)
                                    if final != files:
                                        diff = [k for k in set(final) | set(files) if final.get(k) != files.get(k)]
                                        violations.append({
                                            'label': 'renaming back does not restore the original text',
                                            'input': repr({'name': ident, 'at': (rel, pos)}),
                                            'observed': 'files differing: %r' % diff})
                            except jedi.RefactoringError:
                                pass
                            except RecursionError:
                                pass
                            except Exception:
                                violations.append({'label': 'rename raised', 'input': repr({'name': ident, 'at': (rel, pos)}),
                                                   'observed': traceback.format_exc(limit=4)})
                        finally:
                            shutil.rmtree(work, ignore_errors=True)
            if len(samples) < 2:
                samples.append({'files': sorted(files), 'identifiers': idents})
        finally:
            shutil.rmtree(base, ignore_errors=True)
    seen = {}
    for v in violations:
        seen.setdefault(v['label'], []).append(v)
    return {'name': 'C05.rename-programs', 'contract': 'C05.rename',
            'evaluations': evaluations, 'distinct_nontrivial': evaluations,
            'rule': '%d executable programs (functions/params/keywords, classes/attributes, lambdas/closures, two-module '
                    'imports with non-ASCII identifiers, package with re-export and alias, for/with/except/comprehension '
                    'targets) x every listed identifier x its token occurrences; rename to a fresh name, apply, run, '
                    'rename back' % len(PROGRAMS),
            'samples': samples, 'violations': violations[:300],
            'violation_counts': {k: len(v) for k, v in seen.items()}}
