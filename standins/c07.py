"""C07 bounded stand-in: refactoring results of the real API on small programs (LF/CRLF, tabs/spaces, with/without
final newline): the diff reproduces get_new_code(), nothing is written before apply(), apply() writes the announced
contents, the result still compiles and behaves the same, only RefactoringError escapes."""
import itertools
import os
import re
import shutil
import subprocess
import sys
import tempfile
import traceback

BASE = [
    # (source with {I} = one indentation unit, refactoring, (line, col) finder text, kwargs)
    ('def f():\n{I}a = 1 + 2\n{I}b = a * 3\n{I}return b\nprint(f())', 'inline', 'a = 1', {}),
    ('def f():\n{I}if True:\n{I}{I}val = 10\n{I}{I}return val + 1\n{I}return 0\nprint(f())', 'inline', 'val = 10', {}),
    ('x = 5\ny = x + x\nprint(y)', 'inline', 'x = 5', {}),
    ('def f():\n{I}return v\nv = 3', 'inline', 'v = 3', {}),
    ('def f():\n{I}return w + 1\nprint(1)\nw = 3', 'inline', 'w = 3', {}),
    ('def g(n):\n{I}return n * 2 + 1\nprint(g(3))', 'rename', 'n):', {'new_name': 'count'}),
    ('total = 1\n# comment\n\nprint(total)  # trailing\nlast = total', 'rename', 'total = 1', {'new_name': 'summe'}),
    ('def h(a, b):\n{I}return (a + b) * 2\nprint(h(1, 2))', 'extract_variable', '(a + b)',
     {'new_name': 'tmp', 'len': 7}),
    ('def k(a):\n{I}z = a + 1\n{I}return z * 2\nprint(k(2))', 'extract_function', 'a + 1', {'new_name': 'helper', 'len': 5}),
]


def apply_unified_diff(original_lines, diff_text):
    """apply a one-file unified diff to a list of lines (with line ends)"""
    out = []
    src = 0
    lines = diff_text.splitlines(keepends=True)
    i = 0
    while i < len(lines) and not lines[i].startswith('@@'):
        i += 1
    while i < len(lines):
        m = re.match(r'@@ -(\d+)(?:,(\d+))? \+(\d+)(?:,(\d+))? @@', lines[i])
        if not m:
            raise ValueError('bad hunk header %r' % lines[i])
        start = int(m.group(1))
        count = int(m.group(2) or '1')
        if count == 0:
            start += 1
        out.extend(original_lines[src:start - 1])
        src = start - 1
        i += 1
        while i < len(lines) and not lines[i].startswith('@@'):
            l = lines[i]
            if l.startswith(' '):
                if original_lines[src] != l[1:]:
                    raise ValueError('context mismatch at %d: %r vs %r' % (src, original_lines[src], l[1:]))
                out.append(l[1:])
                src += 1
            elif l.startswith('-'):
                if original_lines[src] != l[1:]:
                    raise ValueError('removal mismatch at %d: %r vs %r' % (src, original_lines[src], l[1:]))
                src += 1
            elif l.startswith('+'):
                out.append(l[1:])
            elif l.startswith('\\'):
                pass
            i += 1
    out.extend(original_lines[src:])
    return out


def with_nl(text):
    """upstream's documented choice: the diff is computed as if a missing final newline were present"""
    import parso
    ls = parso.split_lines(text, keepends=True)
    if ls[-1] != '':
        ls[-1] += '\n'
    return [l for l in ls if l != '']


def run_prog(path):
    p = subprocess.run([sys.executable, '-S', path], capture_output=True, text=True, timeout=60)
    return p.returncode, p.stdout


def run(repo, seed, tier):
    import jedi
    violations = []
    evaluations = 0
    samples = []
    variants = list(itertools.product(('    ', '\t'), ('\n', '\r\n'), (True, False)))
    for (tmpl, kind, anchor, kw), (indent, eol, final_nl) in itertools.product(BASE, variants):
        src = tmpl.replace('{I}', indent) + ('\n' if final_nl else '')
        src = src.replace('\n', eol)
        work = tempfile.mkdtemp(prefix='ref_', dir=os.environ['STANDIN_TMP'])
        try:
            path = os.path.join(work, 'prog.py')
            with open(path, 'w', newline='') as f:
                f.write(src)
            rc0, out0 = run_prog(path)
            idx = src.index(anchor.replace('\n', eol))
            line = src.count(eol, 0, idx) + 1 if eol == '\n' else src[:idx].count('\r\n') + 1
            col = idx - (src.rfind(eol, 0, idx) + len(eol)) if eol in src[:idx] else idx
            kwargs = dict(kw)
            ln = kwargs.pop('len', None)
            if ln is not None:
                kwargs['until_line'] = line
                kwargs['until_column'] = col + ln
            evaluations += 1
            s = jedi.Script(src, path=path, project=jedi.Project(work))
            try:
                ref = getattr(s, kind)(line, col, **kwargs)
            except jedi.RefactoringError:
                continue
            except Exception:
                violations.append({'label': 'refactoring request raised something else than RefactoringError',
                                   'input': repr((kind, src)), 'observed': traceback.format_exc(limit=3)})
                continue
            desc = repr({'kind': kind, 'indent': indent, 'eol': eol, 'final_newline': final_nl, 'source': src})
            try:
                changed = ref.get_changed_files()
                if open(path, newline='').read() != src:
                    violations.append({'label': 'file changed on disk before apply()', 'input': desc, 'observed': ''})
                cf = list(changed.values())[0]
                new = cf.get_new_code()
                diff = cf.get_diff()
                try:
                    applied = ''.join(apply_unified_diff(with_nl(src), diff)) if diff.strip() else ''.join(with_nl(src))
                except ValueError as e:
                    applied = 'diff does not apply: %s' % e
                if applied != ''.join(with_nl(new)):
                    violations.append({'label': 'get_diff() does not transform the original into get_new_code()',
                                       'input': desc, 'observed': 'applied %r, new code %r' % (applied, new)})
                if ref.get_diff() != ''.join('rename from %s\nrename to %s\n' % r for r in ref.get_renames()) + diff:
                    violations.append({'label': 'Refactoring.get_diff() is not renames + file diffs', 'input': desc,
                                       'observed': ref.get_diff()[:200]})
                # text outside the rewritten nodes: line endings and final newline state are preserved
                # (extract_* insert a new statement; its own line end is new text, not preserved text)
                if kind in ('rename', 'inline') and eol == '\r\n' and re.search(r'(?<!\r)\n', new):
                    violations.append({'label': 'line endings are not preserved', 'input': desc, 'observed': repr(new)})
                if kind in ('rename',) and new.endswith(('\n', '\r')) != src.endswith(('\n', '\r')):
                    violations.append({'label': 'final newline state is not preserved', 'input': desc, 'observed': repr(new)})
                ref.apply()
                on_disk = open(path, newline='').read()
                if on_disk != new:
                    violations.append({'label': 'apply() did not write exactly get_new_code()', 'input': desc,
                                       'observed': repr(on_disk[:200])})
                rc1, out1 = run_prog(path)
                if rc0 == 0 and (rc1, out1) != (rc0, out0):
                    violations.append({'label': 'refactored program no longer compiles or behaves differently',
                                       'input': desc, 'observed': 'rc %r out %r, new code %r' % (rc1, out1, new)})
                if len(samples) < 2:
                    samples.append({'kind': kind, 'source': src, 'new': new})
            except Exception:
                violations.append({'label': 'inspecting the refactoring raised', 'input': desc,
                                   'observed': traceback.format_exc(limit=3)})
        finally:
            shutil.rmtree(work, ignore_errors=True)
    # package rename: the announced target paths are where the files are after apply()
    work = tempfile.mkdtemp(prefix='refp_', dir=os.environ['STANDIN_TMP'])
    try:
        files = {'pkg/__init__.py': 'VALUE = 1\n', 'pkg/sub/__init__.py': '', 'pkg/sub/deep.py': 'import pkg\nx = pkg.VALUE\n',
                 'pkg/sub/more/__init__.py': '', 'pkg/sub/more/leaf.py': 'import pkg\ny = pkg.VALUE\n',
                 'pkg_utils.py': 'import pkg\nz = pkg.VALUE\n', 'main.py': 'import pkg\nprint(pkg.VALUE)\n'}
        for rel, text in files.items():
            p = os.path.join(work, rel)
            os.makedirs(os.path.dirname(p), exist_ok=True)
            open(p, 'w').write(text)
        evaluations += 1
        main = os.path.join(work, 'main.py')
        s = jedi.Script(files['main.py'], path=main, project=jedi.Project(work))
        ref = s.rename(1, 7, new_name='newpkg')
        changed = ref.get_changed_files()
        diff = ref.get_diff()
        announced = {}
        for path, cf in changed.items():
            announced[str(cf._to_path)] = cf.get_new_code()
            hdr = '+++ %s' % os.path.relpath(str(cf._to_path), work)
            if hdr not in diff:
                violations.append({'label': 'diff header does not name the announced target path',
                                   'input': 'package rename pkg -> newpkg', 'observed': '%r not in diff' % hdr})
        ref.apply()
        for to_path, text in announced.items():
            if not os.path.exists(to_path) or open(to_path).read() != text:
                violations.append({'label': 'after apply() a changed file is not at its announced path with the announced text',
                                   'input': 'package rename pkg -> newpkg',
                                   'observed': '%s exists=%r' % (os.path.relpath(to_path, work), os.path.exists(to_path))})
        for frm, to in ref.get_renames():
            if os.path.exists(str(frm)) or not os.path.exists(str(to)):
                violations.append({'label': 'announced rename not performed', 'input': 'package rename pkg -> newpkg',
                                   'observed': repr((str(frm), str(to)))})
        if os.path.exists(os.path.join(work, 'newpkg_utils.py')) or not os.path.exists(os.path.join(work, 'pkg_utils.py')):
            violations.append({'label': 'a sibling sharing the name prefix was moved', 'input': 'package rename pkg -> newpkg',
                               'observed': sorted(os.listdir(work))})
    except jedi.RefactoringError:
        pass
    except Exception:
        violations.append({'label': 'package rename raised', 'input': 'package rename pkg -> newpkg',
                           'observed': traceback.format_exc(limit=4)})
    finally:
        shutil.rmtree(work, ignore_errors=True)
    seen = {}
    for v in violations:
        seen.setdefault(v['label'], []).append(v)
    return {'name': 'C07.refactoring-results', 'contract': 'C07.refactoring',
            'evaluations': evaluations, 'distinct_nontrivial': evaluations,
            'rule': '%d program templates (inline in nested suites, rename with comments/blank lines, extract variable / '
                    'function) x indentation (spaces, tabs) x line ending (LF, CRLF) x final newline (yes, no)' % len(BASE),
            'samples': samples, 'violations': violations[:300],
            'violation_counts': {k: len(v) for k, v in seen.items()}}
