"""C07 bounded stand-in: refactoring results of the real API.

Sources: generated programs (functions, classes with bound/static/class methods, multi-line bracketed expressions
with comments, semicolons, backslash continuations, unicode identifiers, tiny and empty sources, multi-file
projects with modules and packages) and the corpus of the tree under test (the input halves of test/refactor/*.py),
each rendered with spaces/tabs, LF/CRLF, with/without final newline, ascii/unicode identifiers.
Requests: rename, inline, extract_variable, extract_function at token positions, at every expression node and
statement run of Python's own ast (as explicit ranges, with until_line only, until_column only, or both), at random
ranges and at positions outside the source; inspected only or applied.
Oracles (all from the property text): a strict unified-diff parser/applier, byte snapshots of the project
directory before/after, textual inversion of the rewrite (rename: new.replace(new_name, old) == source; extract:
source == new code minus the generated definition with the extracted range put back), Python's tokenize for comments
and logical lines, execution of the program before/after, and the position arithmetic of the source text for the
exception contract.

SAFETY: Refactoring.apply() rewrites/renames real files.  A rename of a name that lives in the standard library
(`import os` -> os.py) would rename files of the Python installation.  Therefore (1) the generated programs only
import their own files (checked at start), (2) corpus inputs that import anything but import_tree get no
rename/inline requests, (3) guarded_apply() is the only caller of apply() and refuses any result whose changed files
or renames do not lie inside the scratch project directory under STANDIN_TMP."""
import ast
import contextlib
import io
import keyword
import locale
import multiprocessing
import os
import random
import re
import shutil
import signal
import subprocess
import sys
import tempfile
import tokenize
import traceback

# ---- violation labels (the first block is the original set and must stay stable) -------------------------------
L_OTHER_EXC = 'refactoring request raised something else than RefactoringError'
L_DISK_BEFORE = 'file changed on disk before apply()'
L_DIFF_NEW = 'get_diff() does not transform the original into get_new_code()'
L_REF_DIFF = 'Refactoring.get_diff() is not renames + file diffs'
L_EOL = 'line endings are not preserved'
L_FINAL_NL = 'final newline state is not preserved'
L_APPLY = 'apply() did not write exactly get_new_code()'
L_BEHAV = 'refactored program no longer compiles or behaves differently'
L_INSPECT = 'inspecting the refactoring raised'
L_HDR = 'diff header does not name the announced target path'
L_AT_PATH = 'after apply() a changed file is not at its announced path with the announced text'
L_RENAME = 'announced rename not performed'
L_SIBLING = 'a sibling sharing the name prefix was moved'
L_PKG = 'package rename raised'
# labels of the widened check
L_VALUEERR = 'ValueError although every given position is inside the source'
L_MALFORMED = 'get_diff() is not a well-formed unified diff'
L_FILES = 'get_changed_files()/get_renames() do not name exactly the files the diff touches'
L_UNTOUCHED = 'text outside the rewritten nodes was not preserved'
L_COMMENT = 'a comment of the original source is missing from the new code'
L_GENERATED = 'the generated definition does not hold the extracted code'
L_UNANNOUNCED = 'apply() changed a file that was not announced'
L_APPLY_EXC = 'apply() raised'
L_NOPATH = 'apply() of a Script without path did not fail with RefactoringError'
L_UNSTABLE = 'get_diff()/get_new_code() of one result changed between two calls'
L_HUNK_EOF = 'hunk header of get_diff() counts the empty pseudo line after the final newline'

KINDS = ('rename', 'inline', 'extract_variable', 'extract_function')

# ---- generated programs ---------------------------------------------------------------------------------------
# {I} = one indentation unit.  Every program is deterministic and prints values that depend on all its statements.
# 'behav' = refactorings whose every successful result must keep the behaviour (program designed accordingly:
# inline needs immutable single-assignment values, extract needs pure total expressions).
PROGRAMS = [
    {'name': 'nested_suites', 'behav': KINDS, 'files': {'prog.py': (
        'def f(a):\n{I}val = a + 1  # c1\n{I}if a:\n{I}{I}y = val * 2; z = 3\n{I}else:\n{I}{I}y = 0; z = val\n'
        '{I}return y + z\n\n\ndef f2():\n{I}if True:\n{I}{I}num = 10\n{I}{I}return num + 1\n{I}return 0\n'
        'print(f(1), f(0), f2())')}},
    {'name': 'klass', 'behav': KINDS, 'files': {'prog.py': (
        'class K:\n{I}"""doc"""\n{I}base = 10\n\n{I}def __init__(self, n):\n{I}{I}self.n = n\n\n'
        '{I}def m(self, a):\n{I}{I}t = self.n + a\n{I}{I}return t * self.m2()\n\n'
        '{I}def m2(self):\n{I}{I}return K.base + 3\n\n'
        '{I}@staticmethod\n{I}def s(u):\n{I}{I}w = u * 2\n{I}{I}return w + 1\n\n'
        '{I}@classmethod\n{I}def c(cls, u):\n{I}{I}r = cls.base - u\n{I}{I}return r\n\n'
        'k = K(2)\nprint(k.m(1), K.s(4), K.c(5), k.n)')}},
    {'name': 'multiline_brackets', 'behav': KINDS, 'files': {'prog.py': (
        'def g(v, w=0):\n{I}return v + w\n\n'
        'def h(a):\n{I}x = g(\n{I}{I}# keep: explains the argument\n{I}{I}a + 2,\n{I}{I}w=3)  # tail\n'
        '{I}lst = (\n{I}{I}1,  # one\n{I}{I}a * 2,\n\n{I}{I}g(a),\n{I})\n'
        '{I}total = (x\n{I}{I}{I} + len(lst))\n{I}return total, lst\nprint(h(1))')}},
    {'name': 'module_level', 'behav': KINDS, 'files': {'prog.py': (
        '# header comment\n\ntotal = 1\n# comment about total\n\nother = total + \\\n{I}2\n'
        'text = "total is " + str(total); more = "x"  # trailing\nprint(total, other, text, more)\nlast = total')}},
    {'name': 'tuple_attr', 'behav': KINDS, 'files': {'prog.py': (
        'class Obj:\n{I}size = 7\n\n{I}def up(self):\n{I}{I}return self.size + 1\n\n'
        'def mk():\n{I}pair = 1, 2\n{I}first = pair[0]\n{I}obj = Obj()\n{I}up = obj.up()\n{I}big = obj.size\n'
        '{I}neg = -first\n{I}return first, up, pair, neg ** 2, big\nprint(mk())')}},
    {'name': 'closures', 'behav': ('rename', 'inline'), 'files': {'prog.py': (
        'glob = 5\n\ndef deco(fn):\n{I}def inner(*args, **kw):\n{I}{I}return fn(*args, **kw), glob\n{I}return inner\n\n'
        '@deco\ndef calc(p, q=2):\n{I}sq = [i * p for i in range(q)]\n{I}fn = lambda t: t + p\n'
        '{I}msg = f"{p + q}:{fn(1)}"\n{I}res = p if q else -p\n{I}return sq, msg, res\n'
        'print(calc(3), calc(2, 1))')}},
    {'name': 'loops', 'behav': ('rename',), 'files': {'prog.py': (
        'def gen(n):\n{I}i = 0\n{I}while i < n:\n{I}{I}yield i\n{I}{I}i += 1\n\n'
        'class Box:\n{I}def __init__(self):\n{I}{I}self.items = ()\n\n{I}def add(self, item):\n'
        '{I}{I}self.items = self.items + (item,)\n\n'
        'def loop(n):\n{I}acc = Box()\n{I}for j in gen(n):\n{I}{I}try:\n{I}{I}{I}acc.add(10 // j)\n'
        '{I}{I}except ZeroDivisionError:\n{I}{I}{I}acc.add(-1)\n{I}{I}{I}continue\n{I}{I}finally:\n{I}{I}{I}pass\n'
        '{I}if not acc.items:\n{I}{I}return None\n{I}return acc.items\nprint(loop(3))')}},
    {'name': 'one_line', 'behav': KINDS, 'files': {'prog.py': 'print(abs(1 + 2) * 3)'}},
    {'name': 'two_lines', 'behav': KINDS, 'files': {'prog.py': 'x = 5\nprint(x + x * 2)'}},
    {'name': 'use_before_def', 'behav': KINDS, 'files': {'prog.py': (
        'def f():\n{I}return v + w\nv = 3\n\n# gap\n\nw = 4\nprint(f())')}},
    {'name': 'empty', 'behav': (), 'files': {'prog.py': ''}},
    {'name': 'comment_only', 'behav': (), 'files': {'prog.py': '# nothing here\n\n{I}# indented'}},
    {'name': 'unicode_native', 'behav': KINDS, 'files': {'prog.py': (
        'gr\u00f6\u00dfe = 3\n\u540d\u524d = "z\u00df\u20ac\U0001f600"  # \u30b3\u30e1\u30f3\u30c8 \U0001f600\n'
        'def \u0192(\u00e4, \u03b2=gr\u00f6\u00dfe):\n{I}\u03b4 = \u00e4 * \u03b2  # \U0001f600 \u03b4\n{I}return \u03b4 + 1\n'
        'print(\u0192(2), \u540d\u524d, \u0192(\u00e4=1))')}},
    {'name': 'two_modules', 'behav': ('rename',), 'main': 'main.py', 'files': {
        'helper.py': 'VALUE = 4\n\ndef tool(v):\n{I}return v + VALUE\n',
        'helper_extra.py': 'VALUE = "untouched"\n',
        'main.py': 'import helper\nfrom helper import tool, VALUE\n\nprint(tool(VALUE), helper.VALUE, helper.tool(1))',
        'other.py': 'def tool():\n{I}VALUE = 1\n{I}return VALUE\n'}},
    {'name': 'package', 'behav': ('rename',), 'main': 'main.py', 'files': {
        'pkg/__init__.py': 'VALUE = 1\n', 'pkg/sub/__init__.py': '', 'pkg/sub/deep.py': 'import pkg\nx = pkg.VALUE\n',
        'pkg/sub/more/__init__.py': '', 'pkg/sub/more/leaf.py': 'import pkg\ny = pkg.VALUE\n',
        'pkg_utils.py': 'import pkg\nz = pkg.VALUE\n',
        'main.py': 'import pkg\nimport pkg.sub.deep\nimport pkg_utils\nprint(pkg.VALUE, pkg.sub.deep.x, pkg_utils.z)'}},
]

_NO_UNICODE = set(keyword.kwlist) | set(dir(__import__('builtins'))) | {
    'self', 'cls', 'args', 'kw'} | {n for n in dir(str) + dir(list)}
STMT_WORDS = {'def', 'class', 'if', 'elif', 'else', 'for', 'while', 'try', 'except', 'finally', 'with', 'async',
              'await', 'import', 'from', 'global', 'nonlocal', 'del', 'pass', 'break', 'continue', 'raise', 'assert',
              'return', 'yield', 'lambda', 'match', 'case', 'as', ':', ';', '=', '->', '@'}


def render(tmpl, indent, eol, final_nl, uni, is_main, keep=()):
    text = tmpl.replace('{I}', '\x00')
    if uni:
        text = re.sub(r'\b([A-Za-z_]\w*)\b(?!["\'])',
                      lambda m: m.group(1) if m.group(1) in _NO_UNICODE or m.group(1) in keep or m.group(1).startswith('__')
                      else m.group(1) + '\u00fc', text)
    text = text.replace('\x00', indent)
    if is_main:
        if final_nl and text and not text.endswith('\n'):
            text += '\n'
        if not final_nl:
            text = text.rstrip('\n')
    return text.replace('\n', eol)


# ---- the source text as Python sees it ------------------------------------------------------------------------
class Src:
    def __init__(self, text):
        self.text = text
        self.parts = text.split('\n')
        self.starts = []
        o = 0
        for p in self.parts:
            self.starts.append(o)
            o += len(p) + 1
        self.nlines = len(self.parts)
        try:
            self.toks = [t for t in tokenize.generate_tokens(io.StringIO(text).readline)
                         if t.type != tokenize.ENDMARKER]
        except (tokenize.TokenError, SyntaxError, ValueError):
            self.toks = None
        try:
            self.tree = ast.parse(text)
        except (SyntaxError, ValueError):
            self.tree = None

    def width(self, line):
        p = self.parts[line - 1]
        return len(p) - 1 if p.endswith('\r') and line < self.nlines else len(p)

    def raw_width(self, line):
        """length of the line including its line ending"""
        return len(self.parts[line - 1]) + (1 if line < self.nlines else 0)

    def in_range(self, line, col):
        return isinstance(line, int) and isinstance(col, int) and 1 <= line <= self.nlines \
            and 0 <= col <= self.width(line)

    def off(self, line, col):
        return self.starts[line - 1] + col

    def line_start(self, off):
        return self.text.rfind('\n', 0, off) + 1

    def char_col(self, line, byte_col):
        return len(self.parts[line - 1].encode('utf-8')[:byte_col].decode('utf-8'))

    def sig_tokens(self):
        return [t for t in self.toks if t.type not in (tokenize.NL, tokenize.NEWLINE, tokenize.COMMENT,
                                                       tokenize.INDENT, tokenize.DEDENT)]

    def logical_lines(self):
        """[(first physical line, last physical line)] of every logical line"""
        out = []
        first = None
        for t in self.toks:
            if t.type in (tokenize.NL, tokenize.COMMENT, tokenize.INDENT, tokenize.DEDENT):
                continue
            if first is None:
                first = t.start[0]
            if t.type == tokenize.NEWLINE:
                out.append((first, t.start[0]))
                first = None
        if first is not None:
            out.append((first, self.nlines))
        return out

    def comments(self):
        return [t.string for t in self.toks if t.type == tokenize.COMMENT]


def names_at(src, line, col):
    """identifiers touching the position (the candidates for 'the name under the cursor')"""
    if src.toks is None:
        return []
    return [t.string for t in src.toks if t.type == tokenize.NAME and not keyword.iskeyword(t.string)
            and t.start[0] == line and t.start[1] <= col <= t.end[1]]


def bound_names(src):
    """names bound somewhere in the source (renaming anything else, e.g. a builtin, cannot keep the behaviour)"""
    out = set()
    if src.tree is None:
        return out
    for n in ast.walk(src.tree):
        if isinstance(n, ast.Name) and isinstance(n.ctx, ast.Store):
            out.add(n.id)
        elif isinstance(n, ast.Attribute) and isinstance(n.ctx, ast.Store):
            out.add(n.attr)
        elif isinstance(n, (ast.FunctionDef, ast.AsyncFunctionDef, ast.ClassDef)):
            out.add(n.name)
        elif isinstance(n, ast.arg):
            out.add(n.arg)
        elif isinstance(n, ast.alias):
            out.add((n.asname or n.name).split('.')[0])
    return {n for n in out if not n.startswith('__')}


# ---- candidate requests ---------------------------------------------------------------------------------------
def token_positions(src):
    pos = set()
    for ln in range(1, src.nlines + 1):
        pos.add((ln, 0))
        pos.add((ln, src.width(ln)))
    if src.toks is not None:
        for t in src.toks:
            if t.type in (tokenize.INDENT, tokenize.DEDENT) or t.start[0] > src.nlines:
                continue
            for p in (t.start, t.end, (t.start[0], (t.start[1] + t.end[1]) // 2) if t.start[0] == t.end[0] else t.start):
                if src.in_range(*p):
                    pos.add(p)
    return sorted(pos)


def name_positions(src):
    out = []
    if src.toks is None:
        return out
    for t in src.toks:
        if t.type == tokenize.NAME and not keyword.iskeyword(t.string):
            for c in sorted({t.start[1], (t.start[1] + t.end[1]) // 2, t.end[1]}):
                out.append((t.start[0], c))
    return out


def out_of_range_positions(src):
    n = src.nlines
    return [(0, 0), (n + 1, 0), (1, src.width(1) + 1), (n, src.width(n) + 1), (1, -1), (n + 7, 3), (-1, 0)]


_IMPURE_PARENTS = (ast.Lambda, ast.ListComp, ast.SetComp, ast.DictComp, ast.GeneratorExp, ast.IfExp, ast.BoolOp,
                   ast.JoinedStr, ast.FormattedValue, ast.While, ast.Yield, ast.YieldFrom, ast.Await, ast.NamedExpr,
                   ast.comprehension)


def expression_ranges(src):
    """every Load-context expression node of Python's ast: ((line, col), (line, col), keeps_behaviour)"""
    out = []
    if src.tree is None:
        return out
    parent = {}
    for n in ast.walk(src.tree):
        for c in ast.iter_child_nodes(n):
            parent[c] = n
    for n in ast.walk(src.tree):
        if not isinstance(n, ast.expr) or isinstance(n, (ast.Starred, ast.GeneratorExp, ast.Slice)):
            continue
        if not isinstance(getattr(n, 'ctx', None) or ast.Load(), ast.Load):
            continue
        chain = []
        p = n
        while p in parent and not isinstance(p, ast.stmt):
            p = parent[p]
            chain.append(p)
        if any(isinstance(c, (ast.JoinedStr, ast.FormattedValue)) for c in chain):
            continue
        stmt = chain[-1] if chain and isinstance(chain[-1], ast.stmt) else None
        pure = stmt is not None and not any(isinstance(c, _IMPURE_PARENTS) for c in chain) \
            and not isinstance(n, (ast.Yield, ast.YieldFrom, ast.Await, ast.NamedExpr)) \
            and isinstance(stmt, (ast.Assign, ast.Expr, ast.Return, ast.AugAssign, ast.If, ast.AnnAssign)) \
            and not any(isinstance(d, (ast.Yield, ast.YieldFrom, ast.Await, ast.NamedExpr)) for d in ast.walk(n))
        if isinstance(stmt, (ast.FunctionDef, ast.AsyncFunctionDef, ast.ClassDef)):
            pure = False
        # known limits of jedi that are outside this property: a keyword argument name is taken for a variable, and
        # a multi-line expression is copied without the brackets that continued its lines
        if any(isinstance(d, ast.keyword) for d in ast.walk(n)):
            pure = False
        if n.lineno != n.end_lineno and not isinstance(n, (ast.Tuple, ast.List, ast.Dict, ast.Set, ast.Call,
                                                             ast.Subscript, ast.Constant)):
            pure = False
        start = (n.lineno, src.char_col(n.lineno, n.col_offset))
        end = (n.end_lineno, src.char_col(n.end_lineno, n.end_col_offset))
        out.append((start, end, pure))
    return sorted(set(out))


def statement_runs(src, max_len=3, simple_only=False):
    """runs of consecutive statements of one body that fill whole physical lines: (first line, first col, last line)"""
    out = []
    if src.tree is None or src.toks is None:
        return out
    by_line = {}
    for t in src.toks:
        if t.type not in (tokenize.NL, tokenize.NEWLINE, tokenize.COMMENT, tokenize.INDENT, tokenize.DEDENT):
            for ln in range(t.start[0], t.end[0] + 1):
                by_line.setdefault(ln, []).append(t)

    def whole_lines(st):
        first = min([st.lineno] + [d.lineno for d in getattr(st, 'decorator_list', [])])
        col = src.char_col(st.lineno, st.col_offset)
        a = by_line.get(first, [])
        b = by_line.get(st.end_lineno, [])
        if not a or not b or (first == st.lineno and a[0].start != (st.lineno, col)):
            return None
        if b[-1].end != (st.end_lineno, src.char_col(st.end_lineno, st.end_col_offset)):
            return None
        return first, a[0].start[1], st.end_lineno

    for n in ast.walk(src.tree):
        for field in ('body', 'orelse', 'finalbody'):
            body = getattr(n, field, None)
            if not isinstance(body, list) or not body or not isinstance(body[0], ast.stmt):
                continue
            spans = [None if simple_only and hasattr(st, 'body') else whole_lines(st) for st in body]
            for i in range(len(body)):
                for j in range(i, min(i + max_len, len(body))):
                    if all(s is not None for s in spans[i:j + 1]):
                        out.append((spans[i][0], spans[i][1], spans[j][2]))
    return sorted(set(out))


def fresh_name(src_texts, rng, unicode_name):
    """a name whose characters at both ends do not occur in any source, so it can be located exactly"""
    blob = ''.join(src_texts)
    order = 'QZJXWYVKHGUDBMPRTLNFCSEOAI'
    letters = [c for c in order if c not in blob and c.lower() not in blob] or [c for c in order if c not in blob]
    if not letters:
        raise RuntimeError('no free letter for a fresh name')
    c = letters[0]
    mid = rng.choice(['', '_', '_9_', 'o' * 12])
    if unicode_name:
        mid += '\u00f1\u4e2d'
    return c + mid + c


def extract_requests(src, rng, n_each):
    """[(cls, line, col, kwargs, info)]"""
    reqs = []
    exprs = expression_ranges(src)
    for (sl, sc), (el, ec), pure in rng.sample(exprs, min(len(exprs), n_each['expr'])):
        modes = ['both']
        if sl == el:
            modes.append('col')
        if ec == src.raw_width(el):
            modes.append('line')       # the range ends where "to the end of that line" ends
        mode = rng.choice(modes)
        kw = {'both': {'until_line': el, 'until_column': ec}, 'col': {'until_column': ec},
              'line': {'until_line': el}}[mode]
        reqs.append(('expr', sl, sc, kw, {'exact': (src.off(sl, sc), src.off(el, ec)), 'pure': pure}))
    # "to the end of the line" on every line that ends with an expression (bare until_line)
    line_end = [(s, e, p) for s, e, p in exprs if e[1] == src.width(e[0])]
    simple = statement_runs(src, 1, simple_only=True)
    for (sl, sc), (el, ec), pure in rng.sample(line_end, min(len(line_end), n_each['line_end'])):
        # the requested range ends behind the line break: jedi may take the whole (simple) statement instead
        inside = [(a, b) for a, _, b in simple if a <= sl and el <= b]
        info = {'exact': (src.off(inside[0][0], 0), src.off(inside[0][1], src.raw_width(inside[0][1])))} if inside else {}
        reqs.append(('expr_to_eol', sl, sc, {'until_line': el}, info))
    runs = statement_runs(src)
    for first, col, last in rng.sample(runs, min(len(runs), n_each['stmts'])):
        kw = rng.choice([{'until_line': last}, {'until_line': last, 'until_column': src.width(last)},
                         {'until_line': last, 'until_column': src.raw_width(last)}])
        c = rng.choice([0, col])
        s = src.off(first, 0)
        e = src.off(last, src.raw_width(last))      # jedi may or may not take the line break with it
        reqs.append(('stmts', first, c, kw, {'lines': (s, e)}))
    pos = token_positions(src)
    for line, col in rng.sample(pos, min(len(pos), n_each['cursor'])):
        reqs.append(('cursor', line, col, {}, {}))
    for _ in range(min(n_each['range'], len(pos) * 2)):
        i = rng.randrange(len(pos))
        j = min(len(pos) - 1, i + rng.choice([0, 1, 2, 3, 5, 8, 13, rng.randrange(len(pos))]))
        (sl, sc), (el, ec) = pos[i], pos[j]
        kw = rng.choice([{'until_line': el, 'until_column': ec}, {'until_line': el},
                         {'until_column': ec} if sl == el else {'until_line': el, 'until_column': ec}])
        reqs.append(('range', sl, sc, kw, {}))
    oor = out_of_range_positions(src)
    for _ in range(n_each['oor']):
        if rng.random() < 0.5:
            line, col = rng.choice(oor)
            kw = rng.choice([{}, {'until_line': 1}, {'until_line': 1, 'until_column': 0}])
        else:
            line, col = rng.choice(pos)
            kw = rng.choice([{'until_line': 0}, {'until_line': src.nlines + 1}, {'until_line': -2},
                             {'until_line': src.nlines + 1, 'until_column': 0},
                             {'until_column': src.width(line) + 50}, {'until_line': 0, 'until_column': 0}])
        reqs.append(('oor', line, col, kw, {}))
    return reqs


def cursor_requests(src, rng, n_each):
    reqs = []
    names = name_positions(src)
    for line, col in rng.sample(names, min(len(names), n_each['names'])):
        reqs.append(('name', line, col, {}, {}))
    pos = token_positions(src)
    for line, col in rng.sample(pos, min(len(pos), n_each['cursor'])):
        reqs.append(('cursor', line, col, {}, {}))
    oor = out_of_range_positions(src)
    for line, col in rng.sample(oor, min(len(oor), n_each['oor'])):
        reqs.append(('oor', line, col, {}, {}))
    return reqs


def positions_in_range(src, line, col, kw):
    """does every coordinate of the request name a position inside the source?"""
    if not src.in_range(line, col):
        return False
    ul = kw.get('until_line')
    uc = kw.get('until_column')
    if ul is None and uc is None:
        return True
    ul = line if ul is None else ul
    if not (1 <= ul <= src.nlines):
        return False
    if uc is None:
        return True
    return 0 <= uc <= src.raw_width(ul)


# ---- unified diff: strict parser and applier ------------------------------------------------------------------
class DiffError(Exception):
    pass


def _dlines(text):
    parts = text.split('\n')
    return [p + '\n' for p in parts[:-1]] + ([parts[-1]] if parts[-1] else [])


def parse_diff(text, miscounted):
    """`miscounted` receives the hunks whose header counts one line too many on both sides at the end of the file
    -> (renames [(from, to)], sections [(from, to, hunks)]) ; hunks = [(old_start, old_n, new_start, new_n, lines)]"""
    lines = _dlines(text)
    i = 0
    renames = []
    del miscounted[:]
    while i < len(lines) and lines[i].startswith('rename from '):
        if i + 1 >= len(lines) or not lines[i + 1].startswith('rename to '):
            raise DiffError('"rename from" without "rename to" at line %d' % (i + 1))
        renames.append((lines[i][len('rename from '):-1], lines[i + 1][len('rename to '):-1]))
        i += 2
    sections = []
    while i < len(lines):
        if not lines[i].startswith('--- ') or i + 1 >= len(lines) or not lines[i + 1].startswith('+++ '):
            raise DiffError('expected a ---/+++ file header at diff line %d: %r' % (i + 1, lines[i]))
        frm, to = lines[i][4:-1], lines[i + 1][4:-1]
        i += 2
        hunks = []
        while i < len(lines) and lines[i].startswith('@@'):
            m = re.fullmatch(r'@@ -(\d+)(?:,(\d+))? \+(\d+)(?:,(\d+))? @@\n', lines[i])
            if not m:
                raise DiffError('bad hunk header %r' % lines[i])
            os_, on = int(m.group(1)), int(m.group(2) if m.group(2) is not None else 1)
            ns, nn = int(m.group(3)), int(m.group(4) if m.group(4) is not None else 1)
            i += 1
            body = []
            seen_old = seen_new = 0
            while seen_old < on or seen_new < nn:
                if seen_old == on - 1 and seen_new == nn - 1 and (
                        i >= len(lines) or (lines[i].startswith('--- ') and i + 1 < len(lines)
                                            and lines[i + 1].startswith('+++ '))):
                    # the hunk announces one more line on both sides than it has, and it is the last of its file
                    miscounted.append((frm, os_, on, ns, nn))
                    on -= 1
                    nn -= 1
                    os_ -= on == 0
                    ns -= nn == 0
                    break
                if i >= len(lines):
                    raise DiffError('hunk -%d,%d +%d,%d is shorter than announced' % (os_, on, ns, nn))
                l = lines[i]
                if l in ('+', '-', ' ') and i == len(lines) - 1:
                    # the empty pseudo line after a final newline, diffed as if it were a line
                    miscounted.append((frm, os_, on, ns, nn))
                    os_ -= l != '+' and on == 1
                    ns -= l != '-' and nn == 1
                    on -= l != '+'
                    nn -= l != '-'
                    i += 1
                    continue
                if not l.endswith('\n'):
                    raise DiffError('diff line without line end: %r' % l)
                if l[0] == ' ':
                    seen_old += 1
                    seen_new += 1
                elif l[0] == '-':
                    seen_old += 1
                elif l[0] == '+':
                    seen_new += 1
                else:
                    raise DiffError('unexpected line in hunk: %r' % l)
                body.append(l)
                i += 1
            if seen_old != on or seen_new != nn:
                raise DiffError('hunk -%d,%d +%d,%d has %d old and %d new lines' % (os_, on, ns, nn, seen_old, seen_new))
            hunks.append((os_, on, ns, nn, body))
        if not hunks:
            raise DiffError('file section %r without hunks' % frm)
        sections.append((frm, to, hunks))
    return renames, sections


def apply_hunks(original_lines, hunks):
    out = []
    src = 0
    for os_, on, ns, nn, body in hunks:
        start = os_ if on else os_ + 1
        if start - 1 < src:
            raise DiffError('hunks overlap or are out of order at -%d' % os_)
        out.extend(original_lines[src:start - 1])
        src = start - 1
        new_start = ns if nn else ns + 1
        if len(out) + 1 != new_start:
            raise DiffError('hunk +%d starts at new line %d' % (ns, len(out) + 1))
        for l in body:
            if l[0] in ' -':
                if src >= len(original_lines) or original_lines[src] != l[1:]:
                    raise DiffError('context/removal mismatch at old line %d: %r vs %r' % (
                        src + 1, original_lines[src] if src < len(original_lines) else None, l[1:]))
                src += 1
            if l[0] in ' +':
                out.append(l[1:])
    out.extend(original_lines[src:])
    return out


def with_nl(text):
    """upstream's documented choice: the diff is computed as if a missing final newline were present"""
    ls = _dlines(text)
    if ls and not ls[-1].endswith('\n'):
        ls[-1] += '\n'
    return ls


# ---- executing programs ---------------------------------------------------------------------------------------
class _Timeout(Exception):
    pass


def _alarm(signum, frame):
    raise _Timeout()


def exec_source(text, path):
    """run the program text in this process: ('ok', stdout) | ('exc', type, stdout) | ('syntax',)"""
    try:
        code = compile(text, path, 'exec')
    except (SyntaxError, ValueError):
        return ('syntax',)
    buf = io.StringIO()
    old = signal.signal(signal.SIGALRM, _alarm)
    signal.alarm(10)
    try:
        with contextlib.redirect_stdout(buf):
            exec(code, {'__name__': '__main__', '__file__': path})
    except _Timeout:
        return ('exc', 'timeout', buf.getvalue())
    except RecursionError:
        return ('exc', 'RecursionError', '')
    except Exception as e:
        return ('exc', type(e).__name__, buf.getvalue())
    finally:
        signal.alarm(0)
        signal.signal(signal.SIGALRM, old)
    return ('ok', buf.getvalue())


def run_project(work, main):
    p = subprocess.run([sys.executable, '-S', '-B', main], cwd=work, capture_output=True, text=True, timeout=120,
                       env=dict(os.environ, PYTHONDONTWRITEBYTECODE='1', PYTHONPATH=''))
    return ('ok', p.stdout) if p.returncode == 0 else ('exc', p.stderr.strip().splitlines()[-1:] or '', p.stdout)


# ---- the file system ------------------------------------------------------------------------------------------
class OutsideProject(Exception):
    pass


def paths_outside(ref, root):
    """SAFETY: apply() writes get_changed_files() and renames get_renames(); a refactoring of a name that lives in
    the standard library or site-packages would rewrite/rename REAL files.  Every path must be inside `root`."""
    root = os.path.realpath(root)
    paths = [p for p in ref.get_changed_files() if p is not None]
    for a, b in ref.get_renames():
        paths += [a, b]
    return [str(p) for p in paths
            if not (os.path.realpath(str(p)) + os.sep).startswith(root + os.sep)]


def guarded_apply(ref, root):
    """the only place of this module that calls Refactoring.apply()"""
    out = paths_outside(ref, root)
    if out:
        raise OutsideProject(repr(out))
    ref.apply()


def snapshot(work):
    out = {}
    for root, dirs, files in os.walk(work):
        dirs[:] = [d for d in dirs if d != '__pycache__']
        for f in files:
            p = os.path.join(root, f)
            with open(p, 'rb') as fh:
                out[os.path.relpath(p, work)] = fh.read()
    return out


def stat_signature(work):
    """cheap change detector (size, mtime, inode of every file); the byte snapshot decides when it differs"""
    out = {}
    stack = [work]
    while stack:
        d = stack.pop()
        with os.scandir(d) as it:
            for e in it:
                if e.is_dir(follow_symlinks=False):
                    if e.name != '__pycache__':
                        stack.append(e.path)
                else:
                    st = e.stat(follow_symlinks=False)
                    out[e.path] = (st.st_size, st.st_mtime_ns, st.st_ino)
    return out


def restore(work, files, current=None):
    """bring the directory back to `files` (only what differs is written)"""
    current = snapshot(work) if current is None else current
    for rel in current:
        if rel not in files:
            os.unlink(os.path.join(work, rel))
    for rel, data in files.items():
        if current.get(rel) != data:
            p = os.path.join(work, rel)
            os.makedirs(os.path.dirname(p), exist_ok=True)
            with open(p, 'wb') as fh:
                fh.write(data)
    for root, dirs, _ in os.walk(work, topdown=False):
        for d in dirs:
            p = os.path.join(root, d)
            if d == '__pycache__':
                shutil.rmtree(p, ignore_errors=True)
            elif not os.listdir(p) and not any(f.startswith(os.path.relpath(p, work) + os.sep) for f in files):
                os.rmdir(p)


def moved(rel, renames):
    """where a path is after the announced renames (own arithmetic on path components)"""
    parts = rel.split(os.sep)
    for frm, to in renames:
        f = frm.split(os.sep)
        if parts[:len(f)] == f:
            parts = to.split(os.sep) + parts[len(f):]
    return os.sep.join(parts)


# ---- preservation oracles -------------------------------------------------------------------------------------
def subsequence(needles, hay):
    it = iter(hay)
    for n in needles:
        for h in it:
            if h == n:
                break
        else:
            return n
    return None


def check_lines(src, new, touched):
    """every physical line outside `touched` (1-based numbers) is still there, byte for byte and in order"""
    old_lines = _dlines(src.text)
    keep = [l for i, l in enumerate(old_lines, 1) if i not in touched]
    missing = subsequence(keep, _dlines(new))
    if missing is not None:
        return 'line %r is gone or altered' % missing
    return None


def check_comments(src, new):
    if src.toks is None:
        return None
    n = Src(new)
    if n.toks is not None:
        have = n.comments()
        for c in src.comments():
            if c in have:
                have.remove(c)
            else:
                return 'comment %r' % c
        return None
    for c in sorted(set(src.comments())):
        if new.count(c) < src.text.count(c):
            return 'comment %r' % c
    return None


def logical_touched(src, first, last):
    out = set(range(first, last + 1))
    for a, b in src.logical_lines():
        if a <= last and b >= first:
            out.update(range(a, b + 1))
    return out


def selection_is_expression_part(src, line, col, kw):
    """True if every token the explicit range overlaps lies in one logical line and none of them is statement syntax
    (then jedi may widen the range to a node, but never beyond that logical line)"""
    if src.toks is None:
        return None
    ul = kw.get('until_line', line) if kw.get('until_line') is not None else line
    uc = kw.get('until_column')
    if uc is None:
        uc = src.raw_width(ul)
    a, b = (line, col), (ul, uc)
    if b < a:
        return None
    sel = [t for t in src.toks if t.end > a and t.start < b and t.type not in (tokenize.INDENT, tokenize.DEDENT)]
    if not sel or any(t.type in (tokenize.NEWLINE, tokenize.NL, tokenize.COMMENT) for t in sel):
        return None
    if any(t.string in STMT_WORDS for t in sel):
        return None
    for la, lb in src.logical_lines():
        if la <= sel[0].start[0] and sel[-1].end[0] <= lb:
            first = [t for t in src.toks if t.start[0] >= la and t.type not in (
                tokenize.NL, tokenize.COMMENT, tokenize.INDENT, tokenize.DEDENT)][0]
            if first.string in STMT_WORDS:
                return None         # header of a compound statement: the enclosing node is the whole statement
            return set(range(la, lb + 1))
    return None


def cursor_touched(src, line, col):
    """cursor without range strictly inside (or at the start of) a name/number/string: jedi picks a node inside the
    logical line"""
    if src.toks is None:
        return None
    for t in src.toks:
        if t.type in (tokenize.NAME, tokenize.NUMBER, tokenize.STRING) and t.start <= (line, col) < t.end:
            if t.string in STMT_WORDS or (keyword.iskeyword(t.string) and t.string not in ('None', 'True', 'False')):
                return None
            for la, lb in src.logical_lines():
                if la <= line <= lb:
                    return set(range(la, lb + 1))
    return None


def token_strings(text):
    try:
        return [t.string for t in tokenize.generate_tokens(io.StringIO('(' + text + '\n)').readline)
                if t.type not in (tokenize.NL, tokenize.NEWLINE, tokenize.COMMENT, tokenize.INDENT, tokenize.DEDENT,
                                  tokenize.ENDMARKER)][1:-1]
    except (tokenize.TokenError, SyntaxError, IndentationError):
        return None


def check_extract(src, new, name, s, e, kind):
    """[s, e) is the requested range.  The new code must be
        source[:i] + DEFINITION + source[i:s] + R + source[e:]
    with i a line start <= s, DEFINITION whole generated lines holding `name` once, and R = the requested text with
    one part of it replaced by the new name / a call (statement form: by one generated line).
    -> (label, message) or None"""
    text = src.text
    if new.count(name) != 2:
        return L_UNTOUCHED, 'the new name occurs %d times, expected a definition and one use' % new.count(name)
    tail = text[e:]
    if not new.endswith(tail):
        return L_UNTOUCHED, 'the text after the requested range changed: the new code should end with %r' % tail[:120]
    r_end = len(new) - len(tail)
    p = 0
    while p < len(text) and p < len(new) and text[p] == new[p]:
        p += 1
    i = min(src.line_start(min(p, len(text))), src.line_start(s))
    if new[:i] != text[:i]:
        return L_UNTOUCHED, 'the text before the generated definition changed'
    head = text[i:s]
    d, u = new.find(name), new.rfind(name)
    k = None
    for m in re.finditer(r'\n', new[:u]):
        c = m.end()
        if d < c and new[c:c + len(head)] == head and c + len(head) <= u and u + len(name) <= r_end:
            k = c                       # the last fitting line start: longest DEFINITION, shortest R
    if k is None:
        return L_UNTOUCHED, ('the text between the generated definition and the requested range is not the original '
                             'text %r' % head[-160:])
    definition, r = new[i:k], new[k + len(head):r_end]
    requested = text[s:e]
    if kind == 'extract_variable':
        use = re.escape(name)
    else:
        use = r'(?:\w+\.)?' + re.escape(name) + r'\((?:\w+(?:, \w+)*)?\)'
    m = re.search(use, r)
    if not m:
        return L_UNTOUCHED, 'the requested range became %r' % r
    pre, post = r[:m.start()], r[m.end():]
    pres, posts = [pre], [post]
    if kind == 'extract_function':
        pres.append(re.sub(r'(?:return |\w+(?:, \w+)* = | = )$', '', pre))     # "x = " / "return " of a generated statement
    if post.startswith('\n'):
        posts.append(post[1:])                                                # line end of a generated statement
    result = (L_UNTOUCHED, 'the requested range %r became %r' % (requested, r))
    for pre in pres:
        for post in posts:
            if requested.startswith(pre) and requested.endswith(post) and len(pre) + len(post) <= len(requested):
                result = _check_generated(requested[len(pre):len(requested) - len(post)], definition, name, kind)
                if result is None:
                    return None
    return result


def _check_generated(extracted, definition, name, kind):
    want = token_strings(extracted)
    if kind == 'extract_variable':
        m = re.fullmatch(r'[ \t]*' + re.escape(name) + r' = (.*?)\r?\n', definition, re.S)
        if not m:
            return L_GENERATED, 'generated definition %r' % definition
        got = token_strings(m.group(1))
        if got is not None and want is not None and got != want:
            return L_GENERATED, 'defined %r for the extracted text %r' % (m.group(1), extracted)
    else:
        m = re.search(r'def ' + re.escape(name) + r'\([^\n]*\):\r?\n', definition)
        if not m:
            return L_GENERATED, 'generated definition %r' % definition
        body = definition[m.end():]
        got = token_strings(body)
        if got is not None and want is not None and got[:len(want)] != want and got[1:len(want) + 1] != want:
            return L_GENERATED, 'function body %r for the extracted text %r' % (body, extracted)
    return None


# ---- one group = one project rendered one way, a history of requests on it -------------------------------------
def corpus_cases(repo):
    """the input halves of the refactoring corpus of the tree under test"""
    base = os.path.join(repo, 'test', 'refactor')
    out = []
    if not os.path.isdir(base):
        return out
    for fname in sorted(os.listdir(base)):
        if not fname.endswith('.py'):
            continue
        with open(os.path.join(base, fname), newline='') as f:
            code = f.read()
        r = r'^# -{5,} ?([^\n]*)\n((?:(?!\n# \+{5,}).)*\n)# \+{5,}\n((?:(?!\n# -{5,}).)*\n)'
        for m in re.finditer(r, code, re.DOTALL | re.MULTILINE):
            first = m.group(2)
            p = re.match(r'((?:(?!#\?).)*)#\? (\d*)( error| text|) ?([^\n]*)', first, re.DOTALL)
            marked = None
            if p is not None:
                try:
                    kw = eval(p.group(4)) if p.group(4) else {}
                except Exception:
                    kw = {}
                marked = (fname[:-3], p.group(1).count('\n') + 2, int(p.group(2)), kw)
            imported = set(re.findall(r'^[ \t]*(?:import|from)[ \t]+([A-Za-z_]\w*)', first, re.M))
            out.append({'name': 'corpus:%s:%s' % (fname[:-3], m.group(1).strip()), 'file': fname, 'text': first,
                        'marked': marked, 'foreign_imports': sorted(imported - {'import_tree'})})
    return out


def _copy_import_tree(repo, work):
    src = os.path.join(repo, 'test', 'refactor', 'import_tree')
    if os.path.isdir(src):
        shutil.copytree(src, os.path.join(work, 'import_tree'), ignore=shutil.ignore_patterns('__pycache__'))


def _init_worker(tmp):
    import jedi
    d = os.path.join(tmp, 'cache_%d' % os.getpid())
    os.makedirs(d, exist_ok=True)
    jedi.settings.cache_directory = d


def run_group(job):
    import jedi
    enc = locale.getpreferredencoding(False)
    seed, tier, repo, gi, spec, variant, counts = job
    indent, eol, final_nl, uni = variant
    rng = random.Random('%s|%s|%s|%r' % (seed, gi, spec['name'], variant))
    violations = []
    stats = {'evaluations': 0, 'succeeded': 0, 'applied': 0, 'exact_checked': 0, 'behaviour_checked': 0,
             'apply_skipped_outside': 0, 'sandbox_artefacts': 0}
    samples = []
    ts = os.path.join(repo, 'jedi', 'third_party', 'typeshed')
    typeshed_missing = not os.path.isdir(ts) or not os.listdir(ts)
    base = tempfile.mkdtemp(prefix='ref_', dir=os.environ['STANDIN_TMP'])
    work = os.path.join(base, 'project')
    empty = os.path.join(base, 'no_project')      # project directory of the Scripts without path
    os.mkdir(work)
    os.mkdir(empty)
    try:
        # ---- lay out the project
        corpus = 'text' in spec
        if corpus:
            text = spec['text']
            if not final_nl:
                text = text.rstrip('\n')
            texts = {spec['file']: text.replace('\n', eol)}
            main = spec['file']
            _copy_import_tree(repo, work)
            behav = ()
        else:
            main = spec.get('main', 'prog.py')
            keep = {c for rel in spec['files'] for c in os.path.splitext(rel)[0].split('/')}
            texts = {rel: render(t, indent, eol, final_nl, uni, rel == main, keep) for rel, t in spec['files'].items()}
            behav = spec['behav']
        for rel, t in texts.items():
            p = os.path.join(work, rel)
            os.makedirs(os.path.dirname(p), exist_ok=True)
            with open(p, 'w', newline='', encoding='utf-8') as f:
                f.write(t)
        before = snapshot(work)
        signature = [stat_signature(work)]

        def disk_unchanged():
            """nothing in the project directory changed since the last restore (bytes compared when the stat differs)"""
            if stat_signature(work) == signature[0]:
                return True
            if snapshot(work) == before:
                signature[0] = stat_signature(work)
                return True
            return False

        def put_back(current=None):
            restore(work, before, current)
            signature[0] = stat_signature(work)

        multi = len(texts) > 1
        baseline = None
        if behav:
            baseline = run_project(work, main) if multi else exec_source(texts[main], os.path.join(work, main))
            if baseline[0] != 'ok':
                raise RuntimeError('generated program %s %r does not run: %r' % (spec['name'], variant, baseline))
        project = jedi.Project(work)
        empty_project = jedi.Project(empty)
        all_texts = [b.decode('utf-8') for b in before.values()]

        # ---- requests: (file, kind, cls, line, col, kwargs, info)
        requests = []
        targets = [main] if corpus else sorted(texts)
        for rel in targets:
            src = Src(texts[rel])       # (tokenised and parsed once more below; requests are drawn from it)
            share = 1 if rel == main else 3
            for kind in KINDS:
                if kind in ('rename', 'inline') and spec.get('foreign_imports'):
                    # SAFETY: the input imports modules from outside the scratch project (e.g. `import os`); renaming or
                    # inlining such a name concerns real files of the Python installation - never request it
                    continue
                if kind in ('rename', 'inline'):
                    rs = cursor_requests(src, rng, {k: max(1, v // share) for k, v in counts['cursor'].items()})
                else:
                    rs = extract_requests(src, rng, {k: max(1, v // share) for k, v in counts['extract'].items()})
                requests += [(rel, kind) + r for r in rs]
        if corpus and spec['marked'] is not None and not (
                spec['marked'][0] in ('rename', 'inline') and spec['foreign_imports']):
            kind, line, col, kw = spec['marked']
            kw = {k: v for k, v in kw.items() if k != 'new_name'}
            requests.append((main, kind, 'marked', line, col, kw, {}))
        rng.shuffle(requests)

        shared = {}
        analysed = {rel: Src(texts[rel]) for rel in targets}
        for rel, kind, cls, line, col, kw, info in requests:
            src = analysed[rel]
            path = os.path.join(work, rel)
            nopath = not multi and not corpus and rng.random() < 0.08
            fresh = rng.random() < 0.3
            if nopath:
                script = jedi.Script(src.text, project=empty_project)
            elif fresh or rel not in shared:
                script = jedi.Script(src.text, path=path, project=project)
                if not fresh:
                    shared[rel] = script
            else:
                script = shared[rel]
            kwargs = dict(kw)
            name = None
            if kind != 'inline':
                name = fresh_name(all_texts, rng, rng.random() < 0.25)
                kwargs['new_name'] = name
            desc = {'program': spec['name'], 'file': rel, 'indent': indent, 'eol': eol, 'final_newline': final_nl,
                    'unicode': uni, 'kind': kind, 'args': [line, col], 'kwargs': kwargs, 'request': cls,
                    'script': 'path=None' if nopath else ('fresh' if fresh else 'shared'), 'source': src.text}
            if multi:
                desc['project'] = {k: v for k, v in texts.items() if k != rel}

            def bad(label, observed, _desc=desc, _kind=kind):
                if label in (L_OTHER_EXC, L_INSPECT, L_APPLY_EXC) and spec['name'] == 'package' and _kind == 'rename':
                    label = L_PKG
                violations.append({'label': label, 'input': repr(_desc), 'observed': observed,
                                   'key': '%s|%s|%s' % (_kind, _desc['program'].split(':')[0], _desc['request'])})

            stats['evaluations'] += 1
            valid = positions_in_range(src, line, col, kw)
            try:
                ref = getattr(script, kind)(line, col, **kwargs)
            except jedi.RefactoringError:
                ref = None
            except ValueError:
                if typeshed_missing and 'values_from_qualified_names' in traceback.format_exc():
                    stats['sandbox_artefacts'] += 1     # needs a typeshed stub (e.g. types.FunctionType), absent here
                elif valid:
                    bad(L_VALUEERR, traceback.format_exc(limit=-2))
                ref = None
            except Exception:
                if typeshed_missing and 'values_from_qualified_names' in traceback.format_exc():
                    stats['sandbox_artefacts'] += 1
                else:
                    bad(L_OTHER_EXC, traceback.format_exc(limit=-3))
                ref = None
            if not disk_unchanged():
                bad(L_DISK_BEFORE, 'after the request')
                put_back()
            if ref is None:
                continue
            stats['succeeded'] += 1

            # ---- inspect
            try:
                changed = ref.get_changed_files()
                renames = list(ref.get_renames())
                full_diff = ref.get_diff()
                per_file = {p: (cf.get_new_code(), cf.get_diff()) for p, cf in changed.items()}
                again = None
                if rng.random() < 0.3:
                    again = (ref.get_diff(), {p: (cf.get_new_code(), cf.get_diff())
                                              for p, cf in ref.get_changed_files().items()})
            except Exception:
                bad(L_INSPECT, traceback.format_exc(limit=-3))
                continue
            if again is not None and again != (full_diff, per_file):
                bad(L_UNSTABLE, repr(again)[:300])
            if not disk_unchanged():
                bad(L_DISK_BEFORE, 'after get_changed_files()/get_diff()/get_new_code()')
                put_back()

            def rel_of(p):
                if p is None:
                    return ''
                p = str(p)
                return os.path.relpath(p, work) if p.startswith(work + os.sep) else p

            ren_rel = [(rel_of(a), rel_of(b)) for a, b in renames]
            new_by_rel = {rel_of(p): v[0] for p, v in per_file.items()}
            old_by_rel = {}
            for r in new_by_rel:
                if r == '' or (r == rel):
                    old_by_rel[r] = src.text
                elif r in before:
                    old_by_rel[r] = before[r].decode('utf-8')
                else:
                    bad(L_FILES, 'changed file %r is not a file of the project' % r)
            if nopath and set(new_by_rel) != {''}:
                bad(L_FILES, 'Script without path: changed files %r' % sorted(new_by_rel))
            if not nopath and '' in new_by_rel:
                bad(L_FILES, 'a changed file without path: %r' % sorted(new_by_rel))

            # Refactoring.get_diff() = rename lines + the diffs of the changed files
            expected_full = ''.join('rename from %s\nrename to %s\n' % r for r in ren_rel) \
                + ''.join(v[1] for v in per_file.values())
            if full_diff != expected_full:
                bad(L_REF_DIFF, full_diff[:300])
            # well-formed; transforms every original into its new code; names exactly the touched files
            try:
                miscounted = []
                d_renames, sections = parse_diff(full_diff, miscounted)
                if miscounted:
                    bad(L_HUNK_EOF, 'hunks %r in\n%s' % (miscounted, full_diff[:600]))
            except DiffError as e:
                bad(L_MALFORMED, '%s\n%s' % (e, full_diff[:400]))
                d_renames, sections = None, []
            if d_renames is not None:
                if sorted(d_renames) != sorted(ren_rel):
                    bad(L_FILES, 'renames in the diff %r, get_renames() %r' % (d_renames, ren_rel))
                touched_files = sorted(s[0] for s in sections)
                really = sorted(r for r in old_by_rel if with_nl(old_by_rel[r]) != with_nl(new_by_rel[r]))
                if touched_files != really:
                    bad(L_FILES, 'the diff has sections for %r, the changed files with new contents are %r'
                        % (touched_files, really))
                for frm, to, hunks in sections:
                    if frm not in old_by_rel:
                        continue
                    if to != moved(frm, ren_rel):
                        bad(L_HDR, 'section %r -> %r, but the announced renames %r lead to %r'
                            % (frm, to, ren_rel, moved(frm, ren_rel)))
                    try:
                        got = ''.join(apply_hunks(with_nl(old_by_rel[frm]), hunks))
                    except DiffError as e:
                        got = 'diff does not apply: %s' % e
                    if got != ''.join(with_nl(new_by_rel[frm])):
                        bad(L_DIFF_NEW, 'file %r: applied %r, new code %r' % (frm, got, new_by_rel[frm]))
            for r, (code, d) in ((rel_of(p), v) for p, v in per_file.items()):
                if r in old_by_rel and not d.strip() and with_nl(old_by_rel[r]) != with_nl(code):
                    bad(L_DIFF_NEW, 'file %r: empty diff, new code %r' % (r, code))

            # ---- text outside the rewritten nodes
            own = '' if nopath else rel
            new = new_by_rel.get(own)
            if new is not None:
                for r in new_by_rel:
                    if r in old_by_rel:
                        c = check_comments(Src(old_by_rel[r]), new_by_rel[r])
                        if c:
                            bad(L_COMMENT, 'file %r: %s; new code %r' % (r, c, new_by_rel[r]))
                if kind in ('rename', 'inline') and eol == '\r\n' and re.search(r'(?<!\r)\n', new):
                    bad(L_EOL, repr(new))
                if kind == 'rename':
                    if new.endswith(('\n', '\r')) != src.text.endswith(('\n', '\r')):
                        bad(L_FINAL_NL, repr(new))
                    cands = names_at(src, line, col)
                    if cands:
                        for r in new_by_rel:
                            if r in old_by_rel and not any(new_by_rel[r].replace(name, c) == old_by_rel[r]
                                                           for c in cands):
                                bad(L_UNTOUCHED, 'file %r: putting %r back for the new name does not give the '
                                    'original; new code %r' % (r, cands, new_by_rel[r]))
                elif kind == 'inline':
                    cands = names_at(src, line, col)
                    if cands and src.toks is not None:
                        touched = set()
                        for t in src.toks:
                            if t.type == tokenize.NAME and t.string in cands:
                                touched |= logical_touched(src, t.start[0], t.start[0])
                        msg = check_lines(src, new, touched)
                        if msg:
                            bad(L_UNTOUCHED, '%s; new code %r' % (msg, new))
                else:
                    res = None
                    rng_ = info.get('exact') or info.get('lines')
                    if rng_ is not None:
                        stats['exact_checked'] += 1
                        res = check_extract(src, new, name, rng_[0], rng_[1], kind)
                    else:
                        touched = None
                        if cls in ('cursor', 'marked') and not kw:
                            touched = cursor_touched(src, line, col)
                        elif cls in ('range', 'marked') and valid:
                            touched = selection_is_expression_part(src, line, col, kw)
                        if touched is not None:
                            msg = check_lines(src, new, touched)
                            if msg:
                                res = (L_UNTOUCHED, msg)
                    if res is not None:
                        bad(res[0], '%s; new code %r' % (res[1], new))

            # ---- behaviour
            check_behaviour = False
            if baseline is not None and kind in behav and new is not None:
                if kind == 'rename':
                    cands = names_at(src, line, col)
                    check_behaviour = bool(cands) and all(c in bound_names(src) for c in cands) and rel == main
                elif kind == 'inline':
                    check_behaviour = True
                else:
                    check_behaviour = bool(info.get('pure'))
            if check_behaviour and not multi:
                stats['behaviour_checked'] += 1
                after = exec_source(new, path)
                if after != baseline:
                    bad(L_BEHAV, 'before %r, after %r, new code %r' % (baseline, after, new))

            # ---- apply
            if nopath:
                try:
                    guarded_apply(ref, empty)
                    bad(L_NOPATH, 'no exception')
                except jedi.RefactoringError:
                    pass
                except OutsideProject:
                    stats['apply_skipped_outside'] += 1
                except Exception:
                    bad(L_NOPATH, traceback.format_exc(limit=-2))
                if not disk_unchanged() or snapshot(empty):
                    bad(L_UNANNOUNCED, 'apply() of a Script without path changed a project directory')
                    put_back()
                    restore(empty, {})
                continue
            if rng.random() < 0.25 and not (check_behaviour and multi):
                continue        # inspect only
            try:
                outside = paths_outside(ref, work)
            except Exception:
                bad(L_INSPECT, traceback.format_exc(limit=-3))
                continue
            if outside:
                # e.g. the name of a standard library module: never touch files outside the scratch project
                stats['apply_skipped_outside'] += 1
                continue
            stats['applied'] += 1
            try:
                guarded_apply(ref, work)
            except OutsideProject:
                raise
            except Exception:
                bad(L_APPLY_EXC, traceback.format_exc(limit=-3))
                put_back()
                continue
            after_disk = snapshot(work)
            expected = {}
            for r, data in before.items():
                expected[moved(r, ren_rel)] = new_by_rel[r].encode(enc) if r in new_by_rel else data
            if after_disk != expected:
                for r in sorted(set(after_disk) | set(expected)):
                    if after_disk.get(r) == expected.get(r):
                        continue
                    origin = [o for o in before if moved(o, ren_rel) == r]
                    if origin and origin[0] in new_by_rel:
                        # a changed file: announced text at the announced place
                        if not ren_rel and r in after_disk:
                            bad(L_APPLY, 'file %r: %r' % (r, after_disk[r][:300]))
                        else:
                            bad(L_AT_PATH, '%s exists=%r text=%r' % (r, r in after_disk, after_disk.get(r, b'')[:200]))
                    elif origin and origin[0] != r:
                        bad(L_RENAME, '%r is not at %r after apply(); files %r' % (origin[0], r, sorted(after_disk)))
                    elif origin and r not in after_disk and any(
                            r.split(os.sep)[0].startswith(os.path.splitext(f.split(os.sep)[0])[0]) for f, _ in ren_rel):
                        bad(L_SIBLING, '%r is gone; files %r' % (r, sorted(after_disk)))
                    else:
                        bad(L_UNANNOUNCED, '%r: expected %r, found %r' % (
                            r, expected.get(r, b'<absent>')[:120], after_disk.get(r, b'<absent>')[:120]))
            for a, b in ren_rel:
                if os.path.exists(os.path.join(work, a)) or not os.path.exists(os.path.join(work, b)):
                    bad(L_RENAME, repr((a, b)))
            try:
                still = {rel_of(p): cf.get_new_code() for p, cf in changed.items()}
            except Exception:
                bad(L_INSPECT, 'after apply(): ' + traceback.format_exc(limit=-3))
                still = new_by_rel
            if still != new_by_rel:
                bad(L_UNSTABLE, 'get_new_code() after apply(): %r' % (still,))
            if check_behaviour and multi:
                stats['behaviour_checked'] += 1
                new_main = moved(main, ren_rel)
                after = run_project(work, new_main)
                if after != baseline:
                    bad(L_BEHAV, 'before %r, after %r, files %r' % (baseline, after, sorted(after_disk)))
            if len(samples) < 1 and new is not None:
                samples.append({'kind': kind, 'args': [line, col], 'kwargs': kwargs, 'source': src.text, 'new': new})
            put_back(after_disk)
    finally:
        shutil.rmtree(base, ignore_errors=True)
    return {'violations': violations, 'stats': stats, 'samples': samples}


def _check_programs_are_self_contained():
    for spec in PROGRAMS:
        own = {c for rel in spec['files'] for c in os.path.splitext(rel)[0].split('/')}
        for rel, t in spec['files'].items():
            for n in ast.walk(ast.parse(t.replace('{I}', ' '))):
                mods = [a.name for a in n.names] if isinstance(n, ast.Import) else \
                    [n.module or ''] if isinstance(n, ast.ImportFrom) else []
                for m in mods:
                    if m.split('.')[0] not in own:
                        raise RuntimeError('SAFETY: generated program %s imports %r, which is not one of its own files; '
                                           'applying a refactoring of such a name would touch real files'
                                           % (spec['name'], m))


def run(repo, seed, tier):
    _check_programs_are_self_contained()
    rng = random.Random(seed)
    variants = [(i, e, f, u) for i in ('    ', '\t', '  ') for e in ('\n', '\r\n') for f in (True, False)
                for u in (False, True)]
    thorough = tier != 'quick'
    counts = {'cursor': {'names': 14, 'cursor': 5, 'oor': 2},
              'extract': {'expr': 16, 'line_end': 4, 'stmts': 8, 'cursor': 6, 'range': 8, 'oor': 3}}
    corpus_counts = {'cursor': {'names': 5, 'cursor': 2, 'oor': 1},
                     'extract': {'expr': 6, 'line_end': 2, 'stmts': 3, 'cursor': 3, 'range': 3, 'oor': 1}}
    if thorough:
        counts = {k: {a: b * 3 for a, b in v.items()} for k, v in counts.items()}
        corpus_counts = {k: {a: b * 2 for a, b in v.items()} for k, v in corpus_counts.items()}
    jobs = []
    for spec in PROGRAMS:
        for v in (variants if thorough else rng.sample(variants, 7)):
            jobs.append((spec, v, counts))
    cvariants = [('', e, f, False) for e in ('\n', '\r\n') for f in (True, False)]
    for spec in corpus_cases(repo):
        for v in (cvariants if thorough else rng.sample(cvariants, 1)):
            jobs.append((spec, v, corpus_counts))
    jobs = [(seed, tier, repo, gi, spec, v, c) for gi, (spec, v, c) in enumerate(jobs)]
    # longest groups first, results are put back into generation order
    def size(i):
        spec = jobs[i][4]
        return sum(len(t) for t in spec['files'].values()) if 'files' in spec else len(spec['text'])
    order = sorted(range(len(jobs)), key=lambda i: (-size(i), i))
    ctx = multiprocessing.get_context('fork')
    nproc = max(2, min(16, os.cpu_count() or 2))
    with ctx.Pool(nproc, initializer=_init_worker, initargs=(os.environ['STANDIN_TMP'],)) as pool:
        results = pool.map(run_group, [jobs[i] for i in order], chunksize=1)
    by_index = dict(zip(order, results))
    results = [by_index[i] for i in range(len(jobs))]

    violations = []
    counts_by_label = {}
    per_key = {}
    stats = {}
    samples = []
    for r in results:
        for k, v in r['stats'].items():
            stats[k] = stats.get(k, 0) + v
        for s in r['samples']:
            if len(samples) < 2:
                samples.append(s)
        for v in r['violations']:
            counts_by_label[v['label']] = counts_by_label.get(v['label'], 0) + 1
            key = (v['label'], v.pop('key'))
            per_key[key] = per_key.get(key, 0) + 1
            if per_key[key] <= 3:
                violations.append(v)
    # keep the reported list short but never drop a label
    violations.sort(key=lambda v: (len(v['input']), v['input'], v['observed']))
    ranked, seen = [], {}
    for v in violations:
        seen[v['label']] = seen.get(v['label'], 0) + 1
        if seen[v['label']] <= 6:
            ranked.append((seen[v['label']], len(ranked), v))
    kept = [v for _, _, v in sorted(ranked, key=lambda t: t[:2])[:60]]       # the smallest of every label first
    return {'name': 'C07.refactoring-results', 'contract': 'C07.refactoring',
            'evaluations': stats.get('evaluations', 0), 'distinct_nontrivial': stats.get('succeeded', 0),
            'rule': '%d generated projects (nested suites, class with bound/static/class methods, multi-line bracketed '
                    'expressions with comments, module level with comments/semicolons/backslash continuation, tuples and '
                    'attributes, closures/comprehensions/f-strings, loops/try/yield, one- and two-line, empty and '
                    'comment-only sources, native unicode identifiers, a two-module project, a package tree) x '
                    'indentation (4 spaces, tab, 2 spaces) x line ending (LF, CRLF) x final newline (yes, no) x '
                    'identifiers (ascii, unicode), %s; plus the %d corpus inputs of test/refactor/*.py x (LF, CRLF) x '
                    'final newline, %s. Per rendered project a seeded random.Random sample of requests: rename/inline at '
                    'identifier starts/middles/ends, arbitrary token positions and positions outside the source; '
                    'extract_variable/extract_function at every-kind ranges: Load-context expression nodes of Python\'s '
                    'ast (until_line+until_column, until_column only, bare until_line), expressions reaching the end of '
                    'their line with a bare until_line, runs of 1-3 whole-line statements, bare cursors, random token '
                    'ranges, out-of-range lines/columns; 70%% of the successful results are applied, 8%% use a Script '
                    'without path, 70%% share one Script per file (history). Oracles: strict unified-diff parser and '
                    'applier against get_new_code() for every changed file, diff sections/renames vs '
                    'get_changed_files()/get_renames(), byte snapshot of the project directory before the request, after '
                    'inspection and after apply() against the announced contents and own path arithmetic for renames, '
                    'textual inversion of the rewrite (rename: replace the fresh name back; extract: new code == source '
                    'with generated definition lines inserted at a line start and exactly the requested range replaced), '
                    'untouched physical lines kept in order, every comment token (Python tokenize) kept, CRLF kept for '
                    'rename/inline, execution of the program before/after for requests that must keep the behaviour, '
                    'and only RefactoringError may escape, ValueError only if a coordinate lies outside the text. '
                    '(%d succeeded, %d applied, %d exact inversions, %d executions, %d applies skipped because a path lay outside '
                    'the scratch project, %d typeshed artefacts ignored)'
                    % (len(PROGRAMS), 'all 24 renderings' if thorough else '7 sampled renderings each',
                       len(corpus_cases(repo)), 'all 4' if thorough else '1 sampled', stats.get('succeeded', 0),
                       stats.get('applied', 0), stats.get('exact_checked', 0), stats.get('behaviour_checked', 0),
                       stats.get('apply_skipped_outside', 0), stats.get('sandbox_artefacts', 0)),
            'samples': samples, 'violations': kept, 'violation_counts': counts_by_label}
