"""C08 bounded stand-in: editing histories of one buffer with a path; after every version the answers of a new Script in
the long-lived process equal those of a fresh process (empty caches) given the same text."""
import os
import re
import shutil
import tempfile

from standins._fresh import answers, fresh_answers

BASE = '''import os
def foo(a, b=1):
    """doc foo"""
    return a
class Bar:
    attr = 1
    def meth(self, x):
        return foo(x)
value = foo(1)
obj = Bar()
obj.meth(value)
lst = [1, 2]
lst.append('s')
for item in lst:
    item
'''


def histories():
    v = BASE
    h1 = [
        ('base', v),
        ('two lines inserted on top', '# c\n\n' + v),
        ('parameter renamed', v.replace('def foo(a, b=1)', 'def foo(first, b=1)').replace('return a', 'return first')),
        ('function becomes class', v.replace('def foo(a, b=1):\n    """doc foo"""\n    return a\n',
                                             'class foo:\n    """doc cls"""\n    def __init__(self, q): pass\n')),
        ('back to base', v),
        ('syntax error in the middle', v.replace('class Bar:', 'class Bar(:')),
        ('error fixed, form feed inserted', v.replace('class Bar:', '\x0cclass Bar:')),
        ('CRLF line endings', v.replace('\n', '\r\n')),
        ('definition moved below its use', v.replace('def foo(a, b=1):\n    """doc foo"""\n    return a\n', '')
         + 'def foo(late):\n    return late\n'),
        ('non-ASCII identifier', v.replace('value', 'wärt')),
        ('empty buffer', ''),
        ('parameter renamed again', v.replace('def foo(a, b=1)', 'def foo(first, b=1)').replace('return a', 'return first')),
        ('many additions', v + ''.join('lst.append(%d)\n' % i for i in range(70)) + 'lst[0]\n'),
        ('additions removed', v),
        ('tab indentation', v.replace('    ', '\t')),
        ('truncated in the middle of a statement', v[:v.index('obj.meth')] + 'obj.me'),
    ]
    return [('default settings', {}, h1),
            ('fast_parser off from the third version on', {'fast_parser_off_from': 2}, h1[:6] + h1[8:9] + h1[4:5])]


def queries_for(code):
    qs = [('names', 1, 0)]
    lines = code.splitlines() or ['']
    n = 0
    for li, line in enumerate(lines, 1):
        for m in re.finditer(r'[^\W\d]\w*', line):
            if m.group() in ('def', 'class', 'return', 'import', 'for', 'in', 'pass', 'self'):
                continue
            if n < 30:
                qs.append(('goto', li, m.start()))
                qs.append(('infer', li, m.start()))
                n += 1
    last = len(lines)
    qs.append(('complete', last, len(lines[-1])))
    qs.append(('signatures', last, len(lines[-1])))
    return qs


def run(repo, seed, tier):
    import jedi
    violations = []
    evaluations = 0
    samples = []
    root = tempfile.mkdtemp(prefix='edits_', dir=os.environ['STANDIN_TMP'])
    try:
        for hname, opts, hist in histories():
            path = os.path.join(root, hname.split()[0] + '_buffer.py')
            for i, (desc, code) in enumerate(hist):
                fp = not ('fast_parser_off_from' in opts and i >= opts['fast_parser_off_from'])
                jedi.settings.fast_parser = fp
                qs = queries_for(code)
                evaluations += 1
                try:
                    warm = answers(jedi, root, path, code, qs)
                finally:
                    jedi.settings.fast_parser = True
                fresh = fresh_answers(repo, root, path, code, qs)
                if len(samples) < 2:
                    samples.append({'version': desc, 'queries': len(qs)})
                if warm != fresh:
                    diffs = [(qs[j], warm[j], fresh[j]) for j in range(len(qs)) if warm[j] != fresh[j]]
                    violations.append({'label': 'answers for a buffer version differ from a fresh process given the same text',
                                       'input': 'history %r, version %d: %s' % (hname, i, desc),
                                       'observed': repr(diffs[:3])[:700]})
    finally:
        jedi.settings.fast_parser = True
        shutil.rmtree(root, ignore_errors=True)
    return {'name': 'C08.edit-histories', 'contract': 'C08.coherence',
            'evaluations': evaluations, 'distinct_nontrivial': evaluations,
            'rule': '2 editing histories (16 and 8 versions: insertions, renames, def<->class, syntax error and repair, '
                    'form feed, CRLF, tabs, non-ASCII, empty, truncation, 70 list additions; second history with '
                    'settings.fast_parser switched off midway) on one path; per version goto+infer on up to 30 '
                    'identifiers, names, completion, signatures; oracle = fresh child process, empty parser cache',
            'samples': samples, 'violations': violations[:50],
            'violation_counts': {'answers differ': len(violations)}}
