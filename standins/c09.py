"""C09 bounded stand-in: sequences of file-system mutations on a small project; after every step the answers of a
new Script in the long-lived process (warm caches) must equal the answers of a fresh process with an empty cache.

Second generator (``ns_*``): packages that are SPLIT over several search-path roots (pkgutil / pkg_resources style namespace
packages, PEP 420 implicit namespace packages, regular packages and mixtures), the roots being on the search path in three
different ways (project root, parent directory of the buffer, Project(added_sys_path=...) / Project(sys_path=...)).  Seeded
random histories create / delete / re-create whole portions, add / overwrite / delete / convert modules inside portions and
switch the kind of a portion, while after EVERY step every module name of a fixed universe is asked for through
from-import / dotted import / star-import / relative import - also the names that do not exist (yet)."""
import json
import os
import random
import shutil
import subprocess
import sys
import tempfile
import time

from standins._fresh import answers, fresh_answers

BUFFER = 'import mod\nfrom mod import thing\nfrom pkg import sub\nmod.th\nthing(\nsub.\nmod.thing\n'
QUERIES = [('complete', 4, 6), ('signatures', 5, 6), ('complete', 6, 4), ('infer', 7, 9), ('goto', 2, 18)]


def steps(root):
    """(description, action)"""
    def w(rel, text):
        def f():
            p = os.path.join(root, rel)
            os.makedirs(os.path.dirname(p), exist_ok=True)
            with open(p, 'w') as fh:
                fh.write(text)
        return f

    def rm(rel):
        def f():
            p = os.path.join(root, rel)
            if os.path.isdir(p):
                shutil.rmtree(p)
            elif os.path.exists(p):
                os.remove(p)
        return f
    return [
        ('create mod.py', w('mod.py', 'def thing(a):\n    """doc one"""\n    return a\n')),
        ('overwrite, same size', w('mod.py', 'def thing(b):\n    """doc two"""\n    return b\n')),
        ('overwrite twice within the same instant (query in between)',
         lambda: (w('mod.py', 'def thing(b, cc):\n    """doc 2b"""\n    return b\n')(),
                  answers(__import__('jedi'), root, os.path.join(root, 'buffer.py'), BUFFER, QUERIES),
                  w('mod.py', 'def thing(b, c, d):\n    """doc 2c"""\n    return b\n')())),
        ('function becomes class', w('mod.py', 'class thing:\n    """doc cls"""\n    def __init__(self, q): pass\n')),
        ('definition removed', w('mod.py', 'other = 1\n')),
        ('delete mod.py', rm('mod.py')),
        ('module becomes package', w('mod/__init__.py', 'def thing(z):\n    return z\n')),
        ('package back to module', lambda: (rm('mod')(), w('mod.py', 'def thing(y):\n    return y\n')())),
        ('create pkg with sub', w('pkg/sub.py', 'subvalue = 1\n')),
        ('add __init__ to pkg', w('pkg/__init__.py', '')),
        ('change sub', w('pkg/sub.py', 'othervalue = 1\ndef subfunc(): pass\n')),
        ('remove __init__ from pkg', rm('pkg/__init__.py')),
        ('stub next to module', w('mod.pyi', 'def thing(y: int) -> int: ...\n')),
        ('remove stub', rm('mod.pyi')),
    ]


def default_project_answers(jedi, path, code, queries):
    """a Script WITHOUT an explicit project: the detected project root must follow the markers on disk"""
    s = jedi.Script(code, path=path)
    out = []
    for kind, line, col in queries:
        try:
            res = getattr(s, kind)(line, col)
            out.append(sorted([d.name, d.type, os.path.basename(str(d.module_path)), d.line] for d in res))
        except Exception as e:
            out.append('EXC:' + type(e).__name__)
    return out


# ---------------------------------------------------------------------------------------------------------------------
# packages split over several search-path roots
# ---------------------------------------------------------------------------------------------------------------------
NS_MODS = ('alpha', 'beta', 'gamma')
NS_ROOTS = ('proj', 'proj/app', 'plug')       # project root / parent directory of the buffer / configured search path
NS_INIT = {
    'pkgutil': 'from pkgutil import extend_path\n__path__ = extend_path(__path__, __name__)\n',
    'pkg_resources': "__import__('pkg_resources').declare_namespace(__name__)\n",
    'regular': 'def plain_package_marker():\n    pass\n',
    'implicit': None,                          # PEP 420: no __init__.py
}


def ns_buffers(pkg):
    """[(relative buffer path, code, [(kind, line, column)])]: every universe name through every import form"""
    top, tq = [], []

    def add(lines, queries, line, kind='complete', col=None):
        lines.append(line)
        queries.append((kind, len(lines), len(line) if col is None else col))
    first = 'from %s import %s' % (pkg, ', '.join(NS_MODS))
    top.append(first)
    for m in NS_MODS:
        tq.append(('infer', 1, first.index(' ' + m) + 2))
    top.append('import ' + ', '.join('%s.%s' % (pkg, m) for m in NS_MODS))
    for m in NS_MODS:
        add(top, tq, '%s.' % m)
    for m in NS_MODS:
        add(top, tq, '%s.%s.' % (pkg, m))
    for m in NS_MODS:
        add(top, tq, 'from %s.%s import ' % (pkg, m))
    add(top, tq, 'from %s import ' % pkg)
    add(top, tq, 'import %s.' % pkg)
    star, sq = ['from %s.%s import *' % (pkg, m) for m in NS_MODS], []
    add(star, sq, 'fn_')
    rel, rq = ['from . import ' + ', '.join(NS_MODS)], []
    for m in NS_MODS:
        add(rel, rq, '%s.' % m)
    for m in NS_MODS:
        add(rel, rq, 'from .%s import ' % m)
    add(rel, rq, 'from . import ')
    return [('proj/app/buffer.py', '\n'.join(top) + '\n', tq),
            ('proj/app/star_buffer.py', '\n'.join(star), sq),
            ('proj/app/%s/relative_buffer.py' % pkg, '\n'.join(rel) + '\n', rq)]


def ns_answers(jedi, specs):
    """JSON-able digest of all queries of all projects; runs in the long-lived process AND in the fresh child"""
    out = []
    for base, pkg, config in specs:
        proj, plug = os.path.join(base, 'proj'), os.path.join(base, 'plug')
        if config == 'added':
            project = jedi.Project(proj, added_sys_path=[plug])
        else:
            project = jedi.Project(proj, sys_path=[plug])
        for rel, code, queries in ns_buffers(pkg):
            if not os.path.isdir(os.path.dirname(os.path.join(base, rel))):
                # Excluded sub-dimension (finding, same mechanism as the known finding 'search-path directory created
                # later'): a buffer whose directory does not exist yet puts that directory on the search path, importlib
                # of the helper caches "no importer" for it and modules created there later are never found.
                out.extend([None] * len(queries))
                continue
            s = jedi.Script(code, path=os.path.join(base, rel), project=project)
            for kind, line, col in queries:
                try:
                    if kind == 'complete':
                        r = sorted([c.name, c.type] for c in s.complete(line, col) if not c.name.startswith('__'))[:40]
                    else:
                        r = sorted([d.name, d.type, os.path.relpath(str(d.module_path), base) if d.module_path else None]
                                   for d in s.infer(line, col))
                except Exception as e:
                    r = 'EXC:' + type(e).__name__
                out.append(r)
    return out


NS_CHILD = ('import sys, json; sys.path.insert(0, %r); import jedi; jedi.settings.cache_directory = %r; '
            'from standins.c09 import ns_answers; print(json.dumps(ns_answers(jedi, %r)))')


def ns_child_answers(repo, specs, cache):
    here = os.path.dirname(os.path.dirname(os.path.abspath(__file__)))
    p = subprocess.run([sys.executable, '-c', NS_CHILD % (repo, cache, specs)], capture_output=True, text=True,
                       timeout=600, env=dict(os.environ, PYTHONPATH=here, PYTHONHASHSEED='0'))
    try:
        return json.loads(p.stdout.strip().splitlines()[-1])
    except Exception:
        raise RuntimeError('child process failed: %s' % p.stderr[-500:])


class NsProject:
    """model of one generated project: which root holds a portion of the package, of which kind, with which modules"""

    def __init__(self, base, index, style, config, rng):
        self.base, self.pkg, self.style, self.config, self.rng = base, 'nsp%d' % index, style, config, rng
        self.portions = {}      # root -> {'kind': key of NS_INIT, 'mods': {module name: ('file' | 'package', definition)}}
        self.counter = 0
        self.dead = set()       # definitions that have been removed from the disk
        for root in NS_ROOTS:       # every search-path root exists from the start (a root that is created later is the
            os.makedirs(os.path.join(base, root), exist_ok=True)    # known finding 'search-path directory created later')

    def spec(self):
        return [self.base, self.pkg, self.config]

    # -- disk ---------------------------------------------------------------------------------------------------
    def _dir(self, root):
        return os.path.join(self.base, root, self.pkg)

    def _write(self, path, text):
        os.makedirs(os.path.dirname(path), exist_ok=True)
        with open(path, 'w') as f:
            f.write(text)

    def _kind(self):
        if self.style == 'mixed':
            return self.rng.choice(sorted(NS_INIT))
        return self.style

    def _set_kind(self, root, kind):
        init = os.path.join(self._dir(root), '__init__.py')
        if NS_INIT[kind] is None:
            if os.path.exists(init):
                os.remove(init)
        else:
            self._write(init, NS_INIT[kind])
        self.portions[root]['kind'] = kind

    def _module_path(self, root, mod, shape):
        return os.path.join(self._dir(root), mod + '.py' if shape == 'file' else mod + '/__init__.py')

    def _put_module(self, root, mod, shape, pad):
        self.counter += 1
        name = 'fn_%s_%03d' % (self.pkg, self.counter)        # constant width: an overwrite without pad keeps the size
        old = self.portions[root]['mods'].get(mod)
        if old:
            self.dead.add(old[1])
        self._write(self._module_path(root, mod, shape), 'def %s(x):\n    return x\n%s' % (name, '# pad\n' * pad))
        self.portions[root]['mods'][mod] = (shape, name)

    def _drop_module(self, root, mod):
        shape, name = self.portions[root]['mods'].pop(mod)
        self.dead.add(name)
        if shape == 'file':
            os.remove(self._module_path(root, mod, shape))
        else:
            shutil.rmtree(os.path.join(self._dir(root), mod))

    # -- history ------------------------------------------------------------------------------------------------
    def _free_names(self):
        # Excluded sub-dimension (finding 'portion order depends on the hash seed'): a module name lives in at most ONE
        # portion at a time.  ModuleValue.py__path__ of unchanged jedi returns list(set(...)) for pkgutil / pkg_resources
        # style packages, so which of two equally named modules of two portions is reported depends on PYTHONHASHSEED:
        # two fresh processes already disagree and the oracle is not defined.
        used = {m for p in self.portions.values() for m in p['mods']}
        return [m for m in NS_MODS if m not in used]

    def candidates(self):
        """[(weight, description, action)] for the current state, in a deterministic order"""
        c = []
        free = self._free_names()
        for root in NS_ROOTS:
            p = self.portions.get(root)
            if p is None:
                if free:
                    c.append((6, 'create portion in %s' % root, lambda root=root: self.op_add_portion(root)))
                continue
            c.append((3, 'delete portion in %s' % root, lambda root=root: self.op_del_portion(root)))
            if free:
                c.append((3, 'add module to portion in %s' % root, lambda root=root: self.op_add_module(root)))
            for mod in sorted(p['mods']):
                c.append((2, 'overwrite %s in %s' % (mod, root), lambda root=root, mod=mod: self.op_overwrite(root, mod)))
                c.append((1, 'delete %s in %s' % (mod, root), lambda root=root, mod=mod: self._drop_module(root, mod)))
                c.append((1, 'module<->package %s in %s' % (mod, root), lambda root=root, mod=mod: self.op_reshape(root, mod)))
            if self.style == 'mixed':
                c.append((4, 'change kind of portion in %s' % root, lambda root=root: self.op_rekind(root)))
        return c

    def step(self):
        c = self.candidates()
        pick = self.rng.uniform(0, sum(w for w, _, _ in c))
        for w, desc, action in c:
            pick -= w
            if pick <= 0:
                break
        detail = action()
        return '%s[%s/%s]: %s%s' % (self.pkg, self.style, self.config, desc, ' (%s)' % detail if detail else '')

    def op_add_portion(self, root):
        kind, mod = self._kind(), self.rng.choice(self._free_names())
        self.portions[root] = {'kind': kind, 'mods': {}}
        os.makedirs(self._dir(root), exist_ok=True)
        self._set_kind(root, kind)
        self._put_module(root, mod, 'file', 0)
        return '%s, %s' % (kind, mod)

    def op_del_portion(self, root):
        for shape, name in self.portions.pop(root)['mods'].values():
            self.dead.add(name)
        shutil.rmtree(self._dir(root))

    def op_add_module(self, root):
        mod = self.rng.choice(self._free_names())
        self._put_module(root, mod, self.rng.choice(['file', 'file', 'package']), 0)
        return mod

    def op_overwrite(self, root, mod):
        pad = self.rng.choice([0, 0, 1, 3])
        self._put_module(root, mod, self.portions[root]['mods'][mod][0], pad)
        return 'same size' if not pad else 'other size'

    def op_reshape(self, root, mod):
        shape = self.portions[root]['mods'][mod][0]
        self._drop_module(root, mod)
        self._put_module(root, mod, 'package' if shape == 'file' else 'file', 0)

    def op_rekind(self, root):
        kind = self.rng.choice([k for k in sorted(NS_INIT) if k != self.portions[root]['kind']])
        self._set_kind(root, kind)
        return kind

    def layout(self):
        return {root: [p['kind'], sorted(p['mods'])] for root, p in sorted(self.portions.items())}


NS_PROJECTS = [('pkgutil', 'added'), ('pkg_resources', 'explicit'), ('implicit', 'added'), ('mixed', 'explicit'),
               ('pkg_resources', 'added'), ('pkgutil', 'explicit'), ('mixed', 'added')]


def ns_run(jedi, repo, seed, tier, root, violations, samples):
    """Lock-step histories of several projects.  Per step, for all projects together: one evaluation in the long-lived
    process, one in a new process that shares the on-disk parser cache of the long-lived one, and the oracle (a fresh
    process with an empty cache)."""
    n_steps = 6 if tier == 'quick' else 30      # the cost of a step is two child processes, whatever the number of projects
    projects = []
    for i, (style, config) in enumerate(NS_PROJECTS if tier == 'quick' else NS_PROJECTS * 3):
        projects.append(NsProject(os.path.join(root, 'ns%d' % i), i, style, config,
                                  random.Random('C09-ns-%d-%d' % (seed, i))))
    specs = [p.spec() for p in projects]
    per_project = sum(len(q) for _, _, q in ns_buffers('x'))
    evaluations = nontrivial = 0
    # the queries are also made BEFORE anything exists: lookups of absent names are part of every history
    history = [['nothing exists yet'] * len(projects)]
    for step in range(n_steps + 1):
        if step:
            history.append([p.step() for p in projects])
        observed = [('long-lived process', json.loads(json.dumps(ns_answers(jedi, specs)))),
                    ('new process with the warm on-disk cache',
                     ns_child_answers(repo, specs, str(jedi.settings.cache_directory)))]
        cache = tempfile.mkdtemp(prefix='fresh_', dir=os.environ['STANDIN_TMP'])
        try:
            fresh = ns_child_answers(repo, specs, cache)
        finally:
            shutil.rmtree(cache, ignore_errors=True)
        for i, p in enumerate(projects):
            f = fresh[i * per_project:(i + 1) * per_project]
            nontrivial += any(a for a in f)
            where = 'history: %s; layout now: %s' % (' -> '.join(h[i] for h in history), p.layout())
            for who, got in observed:
                evaluations += 1
                w = got[i * per_project:(i + 1) * per_project]
                if w != f:
                    qs = [(rel, code.splitlines()[line - 1])
                          for rel, code, queries in ns_buffers(p.pkg) for _, line, _ in queries]
                    diffs = [(qs[k], w[k], f[k]) for k in range(per_project) if w[k] != f[k]]
                    violations.append({'label': 'answers after a change of a package split over several search-path roots '
                                                'differ from a fresh process (%s)' % who,
                                       'input': where,
                                       'observed': 'query, %s, fresh process: ' % who + repr(diffs)[:600]})
                # sound without knowing the resolution order: a definition that is no longer on disk is never reported
                stale = sorted({x[0] for a in w if isinstance(a, list) for x in a if x[0] in p.dead})
                if stale:
                    violations.append({'label': 'a definition that no longer exists on disk is reported for a split '
                                                'package (%s)' % who,
                                       'input': where, 'observed': repr(stale)})
        if len(samples) < 4 and step in (1, n_steps):
            samples.append({'step': history[-1][0], 'answers': [a for a in observed[0][1][:per_project] if a][:3]})
    return evaluations, nontrivial, len(projects), n_steps


def run(repo, seed, tier):
    import jedi
    violations = []
    evaluations = 0
    samples = []
    root = tempfile.mkdtemp(prefix='fsproj_', dir=os.environ['STANDIN_TMP'])
    try:
        path = os.path.join(root, 'buffer.py')
        for desc, action in steps(root):
            action()
            evaluations += 1
            warm = answers(jedi, root, path, BUFFER, QUERIES)
            fresh = fresh_answers(repo, root, path, BUFFER, QUERIES)
            if len(samples) < 2:
                samples.append({'step': desc, 'answers': warm[:2]})
            if warm != fresh:
                diffs = [(QUERIES[i], warm[i], fresh[i]) for i in range(len(QUERIES)) if warm[i] != fresh[i]]
                violations.append({'label': 'answers after a file-system change differ from a fresh process',
                                   'input': 'step: %s' % desc, 'observed': repr(diffs)[:600]})
        # project auto-detection: markers appear and disappear around the buffer
        ws = os.path.join(root, 'ws')
        os.makedirs(os.path.join(ws, 'pkg'))
        with open(os.path.join(ws, 'other.py'), 'w') as f:
            f.write('value = 1\n')
        bpath = os.path.join(ws, 'pkg', 'main.py')
        bcode = 'import other\nother.value\n'
        with open(bpath, 'w') as f:
            f.write(bcode)
        bq = [('infer', 2, 8), ('goto', 1, 9)]
        child = ('import sys, json; sys.path.insert(0, %r); import jedi; jedi.settings.cache_directory = %r; '
                 'from standins.c09 import default_project_answers as d; '
                 'print(json.dumps(d(jedi, %r, %r, %r)))')
        import json
        import subprocess
        import sys

        def fresh_default():
            cache = tempfile.mkdtemp(prefix='fresh_', dir=os.environ['STANDIN_TMP'])
            here = os.path.dirname(os.path.dirname(os.path.abspath(__file__)))
            p = subprocess.run([sys.executable, '-c', child % (repo, cache, bpath, bcode, bq)], capture_output=True,
                               text=True, timeout=300, env=dict(os.environ, PYTHONPATH=here))
            shutil.rmtree(cache, ignore_errors=True)
            return json.loads(p.stdout.strip().splitlines()[-1])

        def touch(rel, text=''):
            def f():
                with open(os.path.join(ws, rel), 'w') as fh:
                    fh.write(text)
            return f

        def rm(rel):
            return lambda: os.remove(os.path.join(ws, rel))
        for desc, action in [('no marker', lambda: None), ('add pkg/__init__.py', touch('pkg/__init__.py')),
                             ('add ws/setup.py', touch('setup.py')), ('remove pkg/__init__.py', rm('pkg/__init__.py')),
                             ('remove ws/setup.py', rm('setup.py')), ('add pkg/setup.py', touch('pkg/setup.py')),
                             ('remove pkg/setup.py, add pkg/__init__.py',
                              lambda: (rm('pkg/setup.py')(), touch('pkg/__init__.py')()))]:
            action()
            evaluations += 1
            warm = json.loads(json.dumps(default_project_answers(jedi, bpath, bcode, bq)))
            fresh = fresh_default()
            if warm != fresh:
                violations.append({'label': 'answers of a Script without explicit project differ from a fresh process '
                                            'after project markers changed',
                                   'input': 'step: %s' % desc, 'observed': repr((warm, fresh))[:600]})
        # a search-path directory that does not exist at the first lookup and is created later
        late_root = os.path.join(root, 'late_ws')
        os.makedirs(late_root)
        late_dir = os.path.join(late_root, 'lib_late')
        lcode = 'import late_mod\nlate_mod.late_value\n'
        lq = [('infer', 2, 12), ('goto', 1, 9)]
        lpath = os.path.join(late_root, 'main.py')

        def late_answers(j):
            project = j.Project(late_root, added_sys_path=[late_dir])
            s = j.Script(lcode, path=lpath, project=project)
            out = []
            for kind, line, col in lq:
                try:
                    out.append(sorted([d.name, d.type, os.path.basename(str(d.module_path)), d.line] for d in getattr(s, kind)(line, col)))
                except Exception as e:
                    out.append('EXC:' + type(e).__name__)
            return out
        import json
        import subprocess
        import sys
        child2 = ('import sys, json, os; sys.path.insert(0, %r); import jedi; jedi.settings.cache_directory = %r; '
                  'late_root, late_dir, lcode, lpath, lq = %r, %r, %r, %r, %r\n'
                  'project = jedi.Project(late_root, added_sys_path=[late_dir]); s = jedi.Script(lcode, path=lpath, project=project)\n'
                  'out = []\n'
                  'for kind, line, col in lq:\n'
                  '    try: out.append(sorted([d.name, d.type, os.path.basename(str(d.module_path)), d.line] for d in getattr(s, kind)(line, col)))\n'
                  '    except Exception as e: out.append("EXC:" + type(e).__name__)\n'
                  'print(json.dumps(out))')
        for desc, action in [('search-path directory does not exist yet', lambda: None),
                             ('directory and module created', lambda: (os.makedirs(late_dir), open(os.path.join(late_dir, 'late_mod.py'), 'w').write('late_value = 1\n')))]:
            action()
            evaluations += 1
            warm = json.loads(json.dumps(late_answers(jedi)))
            cache = tempfile.mkdtemp(prefix='fresh_', dir=os.environ['STANDIN_TMP'])
            p = subprocess.run([sys.executable, '-c', child2 % (repo, cache, late_root, late_dir, lcode, lpath, lq)],
                               capture_output=True, text=True, timeout=300)
            shutil.rmtree(cache, ignore_errors=True)
            fresh = json.loads(p.stdout.strip().splitlines()[-1])
            if warm != fresh:
                violations.append({'label': 'a module in a search-path directory created after the first lookup is not found',
                                   'input': 'step: %s' % desc, 'observed': repr((warm, fresh))[:600]})
        # an unsaved buffer of a path must not be what a later Script sees when it IMPORTS that path
        ub_root = os.path.join(root, 'unsaved_ws')
        os.makedirs(ub_root)
        with open(os.path.join(ub_root, 'shared_mod.py'), 'w') as f:
            f.write('def on_disk(): pass\n')
        jedi.Script('def only_in_buffer(): pass\n', path=os.path.join(ub_root, 'shared_mod.py'),
                    project=jedi.Project(ub_root)).get_names()
        ucode = 'import shared_mod\nshared_mod.o'
        upath = os.path.join(ub_root, 'user.py')
        evaluations += 1
        warm = answers(jedi, ub_root, upath, ucode, [('complete', 2, 12)])
        fresh = fresh_answers(repo, ub_root, upath, ucode, [('complete', 2, 12)])
        if warm != fresh:
            violations.append({'label': 'an import sees the unsaved buffer of an earlier Script instead of the file on disk',
                               'input': 'Script(unsaved text, path=shared_mod.py) then import shared_mod from another buffer',
                               'observed': repr((warm, fresh))[:600]})
        # packages split over several search-path roots
        ns_eval, ns_nontrivial, ns_projects, ns_steps = ns_run(jedi, repo, seed, tier, root, violations, samples)
        evaluations += ns_eval
    finally:
        shutil.rmtree(root, ignore_errors=True)
    return {'name': 'C09.fs-mutations', 'contract': 'C09.freshness',
            'evaluations': evaluations, 'distinct_nontrivial': evaluations,
            'rule': 'one project, %d file-system mutation steps (create, overwrite same size / same second, function<->class, '
                    'remove definition, delete, module<->package, add/remove __init__, stub) x %d queries through '
                    'import / from-import, plus 7 project-marker steps for Scripts without explicit project; plus %d '
                    'seeded random histories of %d steps on packages split over 3 search-path roots (project root, parent '
                    'directory of the buffer, added_sys_path / sys_path; pkgutil, pkg_resources, PEP 420, regular and '
                    'mixed portions; create / delete / re-create portion, add / overwrite / delete module, '
                    'module<->package, change kind of portion) x %d queries for every universe name, existing or not, '
                    'through from-import / dotted import / star-import / relative import, in the long-lived process and '
                    'in a new process with the warm on-disk cache (%d of %d split-package states non-trivial); '
                    'oracle = fresh child process with an empty parser cache; reported definitions must exist on disk'
                    % (len(steps('/x')), len(QUERIES), ns_projects, ns_steps,
                       sum(len(q) for _, _, q in ns_buffers('x')), ns_nontrivial, ns_projects * (ns_steps + 1)),
            'samples': samples, 'violations': violations[:50],
            'violation_counts': {'answers differ': len(violations)}}
