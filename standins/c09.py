"""C09 bounded stand-in: sequences of file-system mutations on a small project; after every step the answers of a
new Script in the long-lived process (warm caches) must equal the answers of a fresh process with an empty cache."""
import os
import shutil
import tempfile
import time

from standins._fresh import answers, fresh_answers

BUFFER = 'import mod\nfrom mod import thing\nfrom pkg import sub\nmod.th\nthing(\nsub.\nmod.thing\n'
QUERIES = [('complete', 4, 6), ('signatures', 5, 6), ('complete', 6, 4), ('infer', 7, 9), ('goto', 2, 18)]


def steps(root):
    """(description, action)"""
    def w(rel, text):
        def f():
            p = os.path.join(root, rel)
            os.makedirs(os.path.dirname(p), exist_ok=True)
            with open(p, 'w') as fh:
                fh.write(text)
        return f

    def rm(rel):
        def f():
            p = os.path.join(root, rel)
            if os.path.isdir(p):
                shutil.rmtree(p)
            elif os.path.exists(p):
                os.remove(p)
        return f
    return [
        ('create mod.py', w('mod.py', 'def thing(a):\n    """doc one"""\n    return a\n')),
        ('overwrite, same size', w('mod.py', 'def thing(b):\n    """doc two"""\n    return b\n')),
        ('overwrite twice within the same instant (query in between)',
         lambda: (w('mod.py', 'def thing(b, cc):\n    """doc 2b"""\n    return b\n')(),
                  answers(__import__('jedi'), root, os.path.join(root, 'buffer.py'), BUFFER, QUERIES),
                  w('mod.py', 'def thing(b, c, d):\n    """doc 2c"""\n    return b\n')())),
        ('function becomes class', w('mod.py', 'class thing:\n    """doc cls"""\n    def __init__(self, q): pass\n')),
        ('definition removed', w('mod.py', 'other = 1\n')),
        ('delete mod.py', rm('mod.py')),
        ('module becomes package', w('mod/__init__.py', 'def thing(z):\n    return z\n')),
        ('package back to module', lambda: (rm('mod')(), w('mod.py', 'def thing(y):\n    return y\n')())),
        ('create pkg with sub', w('pkg/sub.py', 'subvalue = 1\n')),
        ('add __init__ to pkg', w('pkg/__init__.py', '')),
        ('change sub', w('pkg/sub.py', 'othervalue = 1\ndef subfunc(): pass\n')),
        ('remove __init__ from pkg', rm('pkg/__init__.py')),
        ('stub next to module', w('mod.pyi', 'def thing(y: int) -> int: ...\n')),
        ('remove stub', rm('mod.pyi')),
    ]


def default_project_answers(jedi, path, code, queries):
    """a Script WITHOUT an explicit project: the detected project root must follow the markers on disk"""
    s = jedi.Script(code, path=path)
    out = []
    for kind, line, col in queries:
        try:
            res = getattr(s, kind)(line, col)
            out.append(sorted([d.name, d.type, os.path.basename(str(d.module_path)), d.line] for d in res))
        except Exception as e:
            out.append('EXC:' + type(e).__name__)
    return out


def run(repo, seed, tier):
    import jedi
    violations = []
    evaluations = 0
    samples = []
    root = tempfile.mkdtemp(prefix='fsproj_', dir=os.environ['STANDIN_TMP'])
    try:
        path = os.path.join(root, 'buffer.py')
        for desc, action in steps(root):
            action()
            evaluations += 1
            warm = answers(jedi, root, path, BUFFER, QUERIES)
            fresh = fresh_answers(repo, root, path, BUFFER, QUERIES)
            if len(samples) < 2:
                samples.append({'step': desc, 'answers': warm[:2]})
            if warm != fresh:
                diffs = [(QUERIES[i], warm[i], fresh[i]) for i in range(len(QUERIES)) if warm[i] != fresh[i]]
                violations.append({'label': 'answers after a file-system change differ from a fresh process',
                                   'input': 'step: %s' % desc, 'observed': repr(diffs)[:600]})
        # project auto-detection: markers appear and disappear around the buffer
        ws = os.path.join(root, 'ws')
        os.makedirs(os.path.join(ws, 'pkg'))
        with open(os.path.join(ws, 'other.py'), 'w') as f:
            f.write('value = 1\n')
        bpath = os.path.join(ws, 'pkg', 'main.py')
        bcode = 'import other\nother.value\n'
        with open(bpath, 'w') as f:
            f.write(bcode)
        bq = [('infer', 2, 8), ('goto', 1, 9)]
        child = ('import sys, json; sys.path.insert(0, %r); import jedi; jedi.settings.cache_directory = %r; '
                 'from standins.c09 import default_project_answers as d; '
                 'print(json.dumps(d(jedi, %r, %r, %r)))')
        import json
        import subprocess
        import sys

        def fresh_default():
            cache = tempfile.mkdtemp(prefix='fresh_', dir=os.environ['STANDIN_TMP'])
            here = os.path.dirname(os.path.dirname(os.path.abspath(__file__)))
            p = subprocess.run([sys.executable, '-c', child % (repo, cache, bpath, bcode, bq)], capture_output=True,
                               text=True, timeout=300, env=dict(os.environ, PYTHONPATH=here))
            shutil.rmtree(cache, ignore_errors=True)
            return json.loads(p.stdout.strip().splitlines()[-1])

        def touch(rel, text=''):
            def f():
                with open(os.path.join(ws, rel), 'w') as fh:
                    fh.write(text)
            return f

        def rm(rel):
            return lambda: os.remove(os.path.join(ws, rel))
        for desc, action in [('no marker', lambda: None), ('add pkg/__init__.py', touch('pkg/__init__.py')),
                             ('add ws/setup.py', touch('setup.py')), ('remove pkg/__init__.py', rm('pkg/__init__.py')),
                             ('remove ws/setup.py', rm('setup.py')), ('add pkg/setup.py', touch('pkg/setup.py')),
                             ('remove pkg/setup.py, add pkg/__init__.py',
                              lambda: (rm('pkg/setup.py')(), touch('pkg/__init__.py')()))]:
            action()
            evaluations += 1
            warm = json.loads(json.dumps(default_project_answers(jedi, bpath, bcode, bq)))
            fresh = fresh_default()
            if warm != fresh:
                violations.append({'label': 'answers of a Script without explicit project differ from a fresh process '
                                            'after project markers changed',
                                   'input': 'step: %s' % desc, 'observed': repr((warm, fresh))[:600]})
        # a search-path directory that does not exist at the first lookup and is created later
        late_root = os.path.join(root, 'late_ws')
        os.makedirs(late_root)
        late_dir = os.path.join(late_root, 'lib_late')
        lcode = 'import late_mod\nlate_mod.late_value\n'
        lq = [('infer', 2, 12), ('goto', 1, 9)]
        lpath = os.path.join(late_root, 'main.py')

        def late_answers(j):
            project = j.Project(late_root, added_sys_path=[late_dir])
            s = j.Script(lcode, path=lpath, project=project)
            out = []
            for kind, line, col in lq:
                try:
                    out.append(sorted([d.name, d.type, os.path.basename(str(d.module_path)), d.line] for d in getattr(s, kind)(line, col)))
                except Exception as e:
                    out.append('EXC:' + type(e).__name__)
            return out
        import json
        import subprocess
        import sys
        child2 = ('import sys, json, os; sys.path.insert(0, %r); import jedi; jedi.settings.cache_directory = %r; '
                  'late_root, late_dir, lcode, lpath, lq = %r, %r, %r, %r, %r\n'
                  'project = jedi.Project(late_root, added_sys_path=[late_dir]); s = jedi.Script(lcode, path=lpath, project=project)\n'
                  'out = []\n'
                  'for kind, line, col in lq:\n'
                  '    try: out.append(sorted([d.name, d.type, os.path.basename(str(d.module_path)), d.line] for d in getattr(s, kind)(line, col)))\n'
                  '    except Exception as e: out.append("EXC:" + type(e).__name__)\n'
                  'print(json.dumps(out))')
        for desc, action in [('search-path directory does not exist yet', lambda: None),
                             ('directory and module created', lambda: (os.makedirs(late_dir), open(os.path.join(late_dir, 'late_mod.py'), 'w').write('late_value = 1\n')))]:
            action()
            evaluations += 1
            warm = json.loads(json.dumps(late_answers(jedi)))
            cache = tempfile.mkdtemp(prefix='fresh_', dir=os.environ['STANDIN_TMP'])
            p = subprocess.run([sys.executable, '-c', child2 % (repo, cache, late_root, late_dir, lcode, lpath, lq)],
                               capture_output=True, text=True, timeout=300)
            shutil.rmtree(cache, ignore_errors=True)
            fresh = json.loads(p.stdout.strip().splitlines()[-1])
            if warm != fresh:
                violations.append({'label': 'a module in a search-path directory created after the first lookup is not found',
                                   'input': 'step: %s' % desc, 'observed': repr((warm, fresh))[:600]})
        # an unsaved buffer of a path must not be what a later Script sees when it IMPORTS that path
        ub_root = os.path.join(root, 'unsaved_ws')
        os.makedirs(ub_root)
        with open(os.path.join(ub_root, 'shared_mod.py'), 'w') as f:
            f.write('def on_disk(): pass\n')
        jedi.Script('def only_in_buffer(): pass\n', path=os.path.join(ub_root, 'shared_mod.py'),
                    project=jedi.Project(ub_root)).get_names()
        ucode = 'import shared_mod\nshared_mod.o'
        upath = os.path.join(ub_root, 'user.py')
        evaluations += 1
        warm = answers(jedi, ub_root, upath, ucode, [('complete', 2, 12)])
        fresh = fresh_answers(repo, ub_root, upath, ucode, [('complete', 2, 12)])
        if warm != fresh:
            violations.append({'label': 'an import sees the unsaved buffer of an earlier Script instead of the file on disk',
                               'input': 'Script(unsaved text, path=shared_mod.py) then import shared_mod from another buffer',
                               'observed': repr((warm, fresh))[:600]})
    finally:
        shutil.rmtree(root, ignore_errors=True)
    return {'name': 'C09.fs-mutations', 'contract': 'C09.freshness',
            'evaluations': evaluations, 'distinct_nontrivial': evaluations,
            'rule': 'one project, %d file-system mutation steps (create, overwrite same size / same second, function<->class, '
                    'remove definition, delete, module<->package, add/remove __init__, stub) x %d queries through '
                    'import / from-import, plus 7 project-marker steps for Scripts without explicit project; '
                    'oracle = fresh child process with an empty parser cache' % (len(steps('/x')), len(QUERIES)),
            'samples': samples, 'violations': violations[:50],
            'violation_counts': {'answers differ': len(violations)}}
