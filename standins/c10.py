"""C10 bounded stand-in: import statements resolved by jedi vs the file the interpreter really loads, over
enumerated small directory trees (two sys.path roots, module / package / namespace package per node)."""
import itertools
import json
import os
import shutil
import subprocess
import sys
import tempfile
import traceback

ORACLE = r'''
import sys, json, importlib
roots, queries = json.loads(sys.argv[1])
sys.path[:0] = roots
out = []
for pkg_ctx, stmt, name in queries:
    for m in [k for k in list(sys.modules) if k.split('.')[0] in ('a', 'x', 'b', 'ns')]:
        del sys.modules[m]
    importlib.invalidate_caches()
    ns = {'__name__': (pkg_ctx + '.inner') if pkg_ctx else '__main__', '__package__': pkg_ctx or None}
    try:
        exec(stmt, ns)
        obj = ns[name]
        import types
        if isinstance(obj, types.ModuleType):
            f = getattr(obj, '__file__', None)
            out.append(['file', f] if f else ['namespace', sorted(list(obj.__path__))])
        else:
            out.append(['value', None])
    except ImportError as e:
        out.append(['error', type(e).__name__])
    except Exception as e:
        out.append(['other', type(e).__name__])
print(json.dumps(out))
'''


def write(path, text=''):
    os.makedirs(os.path.dirname(path), exist_ok=True)
    with open(path, 'w') as f:
        f.write(text)


def make_node(base, name, kind, child_kind, init_text):
    """kind: 'absent' | 'module' | 'package' | 'namespace'"""
    if kind == 'module':
        write(os.path.join(base, name + '.py'), 'marker = 1\n')
    elif kind in ('package', 'namespace'):
        d = os.path.join(base, name)
        os.makedirs(d, exist_ok=True)
        if kind == 'package':
            write(os.path.join(d, '__init__.py'), init_text)
        if child_kind == 'module':
            write(os.path.join(d, 'b.py'), 'marker = 2\n')
        elif child_kind == 'package':
            write(os.path.join(d, 'b', '__init__.py'), 'marker = 3\n')
            write(os.path.join(d, 'b', 'deep.py'), 'marker = 4\n')
        write(os.path.join(d, 'inner.py'), '')


def layouts(tier):
    kinds = ['absent', 'module', 'package', 'namespace']
    childs = ['absent', 'module', 'package']
    inits = ['', 'from . import b\n']
    out = []
    for k1, k2 in itertools.product(kinds, repeat=2):
        for c1, c2 in itertools.product(childs, repeat=2):
            if k1 in ('absent', 'module') and c1 != 'absent':
                continue
            if k2 in ('absent', 'module') and c2 != 'absent':
                continue
            for init in inits:
                if init and not (k1 == 'package' and c1 != 'absent' or k2 == 'package' and c2 != 'absent'):
                    continue
                for order in (0, 1):
                    out.append((k1, c1, k2, c2, init, order))
    if tier == 'quick':
        # both sys.path orders where the roots compete (node `a` is a package or namespace portion in both roots);
        # elsewhere one order per layout, alternating
        keep = []
        for i, l in enumerate(out):
            compete = l[0] in ('package', 'namespace') and l[2] in ('package', 'namespace')
            if compete or (i // 2 + l[5]) % 2 == 0:
                keep.append(l)
        out = keep
    return out


QUERIES = [
    # (package context of the importing module, statement, bound name, (line, column) of the name to query)
    ('', 'import a', 'a'),
    ('', 'import a.b as ab', 'ab'),
    ('', 'from a import b', 'b'),
    ('', 'from a import b as c', 'c'),
    ('', 'import x', 'x'),
    ('', 'from a.b import deep', 'deep'),
    ('a', 'from . import b', 'b'),
    ('a', 'from .. import x', 'x'),
    ('a', 'from .b import deep', 'deep'),
]


def _init_worker():
    import jedi
    jedi.settings.cache_directory = tempfile.mkdtemp(prefix='w_', dir=os.environ['STANDIN_TMP'])


def check_layout(layout):
    import jedi
    violations = []
    evaluations = 0
    samples = []
    (k1, c1, k2, c2, init, order) = layout
    if True:
        top = tempfile.mkdtemp(prefix='imp_', dir=os.environ['STANDIN_TMP'])
        try:
            r1, r2 = os.path.join(top, 'r1'), os.path.join(top, 'r2')
            os.makedirs(r1)
            os.makedirs(r2)
            make_node(r1, 'a', k1, c1, init)
            make_node(r2, 'a', k2, c2, init)
            write(os.path.join(r2, 'x.py'), 'marker = 9\n')
            roots = [r1, r2] if order == 0 else [r2, r1]
            # the importing module for relative imports lives in the first root that has a directory `a`
            inner_dir = None
            for r in roots:
                if os.path.isdir(os.path.join(r, 'a')):
                    inner_dir = os.path.join(r, 'a')
                    break
            qs = [q for q in QUERIES if not q[0] or inner_dir]
            p = subprocess.run([sys.executable, '-S', '-c', ORACLE, json.dumps([roots, qs])], capture_output=True,
                               text=True, cwd=top, timeout=120)
            try:
                oracle = json.loads(p.stdout.strip().splitlines()[-1])
            except Exception:
                violations.append({'label': 'oracle failed', 'input': repr((k1, c1, k2, c2, init, order)),
                                   'observed': p.stderr[-400:]})
                return evaluations, violations, samples
            project = jedi.Project(top, sys_path=roots, smart_sys_path=False)
            for (ctx, stmt, name), want in zip(qs, oracle):
                if want[0] in ('value', 'other'):
                    continue
                # relative imports from a namespace portion are resolved by Python against the merged package;
                # only ask from a regular file that exists
                path = os.path.join(inner_dir, 'inner.py') if ctx else os.path.join(top, 'main.py')
                code = stmt + '\n' + name + '\n'
                evaluations += 1
                try:
                    s = jedi.Script(code, path=path, project=project)
                    col = len(stmt) - len(name) if stmt.endswith(name) else stmt.index(name)
                    got_inf = s.infer(2, 0)
                    got_goto = s.goto(1, len(stmt) - 1, follow_imports=True)
                except Exception:
                    violations.append({'label': 'query raised', 'input': repr((stmt, k1, c1, k2, c2, init, order)),
                                       'observed': traceback.format_exc(limit=3)})
                    continue
                for label, got in (('infer', got_inf), ('goto(follow_imports)', got_goto)):
                    files = sorted({str(n.module_path) for n in got if n.type in ('module', 'namespace')
                                    and n.module_path is not None})
                    mods = [n for n in got if n.type in ('module', 'namespace')]
                    if want[0] == 'file':
                        if files != [want[1]]:
                            violations.append({
                                'label': '%s resolves an import to a different file than the interpreter' % label,
                                'input': repr({'stmt': stmt, 'from': os.path.relpath(path, top), 'roots': [os.path.basename(r) for r in roots],
                                               'r1': (k1, c1), 'r2': (k2, c2), 'init': init}),
                                'observed': 'jedi %r, python %r' % ([os.path.relpath(f, top) for f in files],
                                                                    os.path.relpath(want[1], top))})
                    elif want[0] == 'error' and want[1] == 'ModuleNotFoundError':
                        # (other ImportErrors, e.g. a relative import beyond the top-level package, are outside the
                        # property's clause: jedi documents a best-effort guess there)
                        if mods:
                            violations.append({
                                'label': '%s resolves an import that fails in the interpreter' % label,
                                'input': repr({'stmt': stmt, 'roots': [os.path.basename(r) for r in roots],
                                               'r1': (k1, c1), 'r2': (k2, c2), 'init': init}),
                                'observed': 'jedi %r, python %s' % ([str(n.module_path) for n in mods], want[1])})
                    elif want[0] == 'namespace':
                        if files:
                            violations.append({
                                'label': '%s resolves a namespace package to a file' % label,
                                'input': repr({'stmt': stmt, 'r1': (k1, c1), 'r2': (k2, c2)}),
                                'observed': 'jedi %r' % files})
            if len(samples) < 3:
                samples.append({'r1': (k1, c1), 'r2': (k2, c2), 'init': init, 'order': order,
                                'oracle': list(zip([q[1] for q in qs], oracle))[:4]})
        finally:
            shutil.rmtree(top, ignore_errors=True)
    return evaluations, violations, samples


def run(repo, seed, tier):
    import multiprocessing as mp
    lay = layouts(tier)
    with mp.get_context('fork').Pool(min(16, os.cpu_count() or 4), initializer=_init_worker) as pool:
        results = pool.map(check_layout, lay, chunksize=2)
    evaluations = sum(r[0] for r in results)
    violations = [v for r in results for v in r[1]]
    samples = [x for r in results for x in r[2]][:3]
    seen = {}
    for v in violations:
        seen.setdefault(v['label'], []).append(v)
    uniq = [vs[0] for vs in seen.values()]
    return {'name': 'C10.import-resolution', 'contract': 'C10.import',
            'evaluations': evaluations, 'distinct_nontrivial': evaluations,
            'rule': 'two sys.path roots in either order; node a in each root absent/module/package/namespace with child b '
                    'absent/module/package; package __init__ empty or re-importing b; 9 import forms (absolute, aliased, '
                    'from-import, relative level 1 and 2); oracle = the file the interpreter loads in a child process',
            'samples': samples, 'violations': violations[:300],
            'violation_counts': {k: len(v) for k, v in seen.items()}}
