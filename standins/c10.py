"""C10 bounded stand-in: import statements resolved by jedi vs what the interpreter really loads.

Two parts:
 A. (legacy) enumerated two-root layouts of one node `a` (module / package / namespace package per root) with 9 import
    forms;
 B. seeded random project layouts: 1-3 sys.path roots in random order (entries optionally spelled with a trailing
    separator, configured through Project(sys_path=), Project(added_sys_path=) or - one root - as the directory of a
    default Project with smart_sys_path), directory trees of depth <= 4 over a
    small name pool (so that siblings, nesting levels and sys.path roots clash), every node a module, a regular
    package, a namespace package or a module AND a directory of the same name, package __init__.py / modules defining
    functions, classes and strings under pool names and re-exporting names of children / siblings / other packages
    (import chains); all import forms (import a.b, import a.b as c, from a import b [as c], from . import x,
    from ..p import q, deeper levels, star) issued from a script outside sys.path, from a script in a root and from
    modules and __init__.py files at every depth.

C. seeded random *star import programs*: projects of 2-4 layered units (regular packages, a namespace package
    split over the roots, top-level modules; nested sub-packages up to dotted depth 4) whose modules share their LAST
    name component across packages (pa.util, pb.util, pa.sub.util, util) and also carry it as a package name
    (pb/util/__init__.py); every file binds project-unique names (functions, classes, strings, aliases of modules and
    of imported names, `from . import x7`) and re-exports the names of up to 3 earlier files through absolute and
    relative star imports, so that star imports form chains and diamonds; the program under test is a SEQUENCE of
    1-3 import statements (star imports - absolute and relative -, from-imports [as] of names a module only has through
    its star imports, `import T as z` followed by z.name for a top-level T) appended to a script or to a module / __init__.py of the
    tree, i.e. several star imports are in effect for one module at once.  Because every name denotes one object in
    the whole project, the order of the bindings never matters and the expectation is exact: the object the
    interpreter binds, or nothing when no import of the program binds the name.

The oracle is always a child interpreter that really executes the statement (in the namespace of the really imported
importing module) and describes the live object bound to the name: a module's __file__, a namespace package's __path__,
the code object of a function (file, line) or the location a class / string carries in its value."""
import itertools
import json
import os
import random
import shutil
import subprocess
import sys
import tempfile
import traceback

# --------------------------------------------------------------------------------------------------------------------
# part A (legacy enumeration)
# --------------------------------------------------------------------------------------------------------------------

ORACLE = r'''
import sys, json, importlib
roots, queries = json.loads(sys.argv[1])
sys.path[:0] = roots
out = []
for pkg_ctx, stmt, name in queries:
    for m in [k for k in list(sys.modules) if k.split('.')[0] in ('a', 'x', 'b', 'ns')]:
        del sys.modules[m]
    importlib.invalidate_caches()
    ns = {'__name__': (pkg_ctx + '.inner') if pkg_ctx else '__main__', '__package__': pkg_ctx or None}
    try:
        exec(stmt, ns)
        obj = ns[name]
        import types
        if isinstance(obj, types.ModuleType):
            f = getattr(obj, '__file__', None)
            out.append(['file', f] if f else ['namespace', sorted(list(obj.__path__))])
        else:
            out.append(['value', None])
    except ImportError as e:
        out.append(['error', type(e).__name__])
    except Exception as e:
        out.append(['other', type(e).__name__])
print(json.dumps(out))
'''


def write(path, text=''):
    os.makedirs(os.path.dirname(path), exist_ok=True)
    with open(path, 'w') as f:
        f.write(text)


def make_node(base, name, kind, child_kind, init_text):
    """kind: 'absent' | 'module' | 'package' | 'namespace'"""
    if kind == 'module':
        write(os.path.join(base, name + '.py'), 'marker = 1\n')
    elif kind in ('package', 'namespace'):
        d = os.path.join(base, name)
        os.makedirs(d, exist_ok=True)
        if kind == 'package':
            write(os.path.join(d, '__init__.py'), init_text)
        if child_kind == 'module':
            write(os.path.join(d, 'b.py'), 'marker = 2\n')
        elif child_kind == 'package':
            write(os.path.join(d, 'b', '__init__.py'), 'marker = 3\n')
            write(os.path.join(d, 'b', 'deep.py'), 'marker = 4\n')
        write(os.path.join(d, 'inner.py'), '')


def layouts(tier, seed=1):
    kinds = ['absent', 'module', 'package', 'namespace']
    childs = ['absent', 'module', 'package']
    inits = ['', 'from . import b\n']
    out = []
    for k1, k2 in itertools.product(kinds, repeat=2):
        for c1, c2 in itertools.product(childs, repeat=2):
            if k1 in ('absent', 'module') and c1 != 'absent':
                continue
            if k2 in ('absent', 'module') and c2 != 'absent':
                continue
            for init in inits:
                if init and not (k1 == 'package' and c1 != 'absent' or k2 == 'package' and c2 != 'absent'):
                    continue
                for order in (0, 1):
                    out.append((k1, c1, k2, c2, init, order))
    if tier == 'quick':
        # all layouts where the roots compete (node `a` is a package or namespace portion in both roots) in a random
        # half of the cases, a seeded random third of the rest
        rng = random.Random('A:%s' % seed)
        compete = [l for l in out if l[0] in ('package', 'namespace') and l[2] in ('package', 'namespace')]
        rest = [l for l in out if l not in compete]
        keep = set(rng.sample(compete, len(compete) // 2) + rng.sample(rest, len(rest) // 3))
        out = [l for l in out if l in keep]
    return out


QUERIES = [
    # (package context of the importing module, statement, bound name, (line, column) of the name to query)
    ('', 'import a', 'a'),
    ('', 'import a.b as ab', 'ab'),
    ('', 'from a import b', 'b'),
    ('', 'from a import b as c', 'c'),
    ('', 'import x', 'x'),
    ('', 'from a.b import deep', 'deep'),
    ('a', 'from . import b', 'b'),
    ('a', 'from .. import x', 'x'),
    ('a', 'from .b import deep', 'deep'),
]


def _init_worker():
    import jedi
    jedi.settings.cache_directory = tempfile.mkdtemp(prefix='w_', dir=os.environ['STANDIN_TMP'])


def check_layout(layout):
    import jedi
    violations = []
    evaluations = 0
    samples = []
    (k1, c1, k2, c2, init, order) = layout
    if True:
        top = tempfile.mkdtemp(prefix='imp_', dir=os.environ['STANDIN_TMP'])
        try:
            r1, r2 = os.path.join(top, 'r1'), os.path.join(top, 'r2')
            os.makedirs(r1)
            os.makedirs(r2)
            make_node(r1, 'a', k1, c1, init)
            make_node(r2, 'a', k2, c2, init)
            write(os.path.join(r2, 'x.py'), 'marker = 9\n')
            roots = [r1, r2] if order == 0 else [r2, r1]
            # the importing module for relative imports lives in the first root that has a directory `a`
            inner_dir = None
            for r in roots:
                if os.path.isdir(os.path.join(r, 'a')):
                    inner_dir = os.path.join(r, 'a')
                    break
            qs = [q for q in QUERIES if not q[0] or inner_dir]
            p = subprocess.run([sys.executable, '-S', '-c', ORACLE, json.dumps([roots, qs])], capture_output=True,
                               text=True, cwd=top, timeout=300)
            try:
                oracle = json.loads(p.stdout.strip().splitlines()[-1])
            except Exception:
                raise RuntimeError('C10 oracle process failed for %r: %s' % (layout, p.stderr[-800:]))
            project = jedi.Project(top, sys_path=roots, smart_sys_path=False)
            for (ctx, stmt, name), want in zip(qs, oracle):
                if want[0] in ('value', 'other'):
                    continue
                # relative imports from a namespace portion are resolved by Python against the merged package;
                # only ask from a regular file that exists
                path = os.path.join(inner_dir, 'inner.py') if ctx else os.path.join(top, 'main.py')
                code = stmt + '\n' + name + '\n'
                evaluations += 1
                try:
                    s = jedi.Script(code, path=path, project=project)
                    got_inf = s.infer(2, 0)
                    got_goto = s.goto(1, len(stmt) - 1, follow_imports=True)
                except Exception:
                    violations.append({'label': 'query raised', 'input': repr((stmt, k1, c1, k2, c2, init, order)),
                                       'observed': traceback.format_exc(limit=3)})
                    continue
                for label, got in (('infer', got_inf), ('goto(follow_imports)', got_goto)):
                    files = sorted({str(n.module_path) for n in got if n.type in ('module', 'namespace')
                                    and n.module_path is not None})
                    mods = [n for n in got if n.type in ('module', 'namespace')]
                    if want[0] == 'file':
                        if files != [want[1]]:
                            violations.append({
                                'label': '%s resolves an import to a different file than the interpreter' % label,
                                'input': repr({'stmt': stmt, 'from': os.path.relpath(path, top), 'roots': [os.path.basename(r) for r in roots],
                                               'r1': (k1, c1), 'r2': (k2, c2), 'init': init}),
                                'observed': 'jedi %r, python %r' % ([os.path.relpath(f, top) for f in files],
                                                                    os.path.relpath(want[1], top)),
                                'kind': 'A:' + stmt})
                    elif want[0] == 'error' and want[1] == 'ModuleNotFoundError':
                        # (other ImportErrors, e.g. a relative import beyond the top-level package, are outside the
                        # property's clause: jedi documents a best-effort guess there)
                        if mods:
                            violations.append({
                                'label': '%s resolves an import that fails in the interpreter' % label,
                                'input': repr({'stmt': stmt, 'roots': [os.path.basename(r) for r in roots],
                                               'r1': (k1, c1), 'r2': (k2, c2), 'init': init}),
                                'observed': 'jedi %r, python %s' % ([str(n.module_path) for n in mods], want[1]),
                                'kind': 'A:' + stmt})
                    elif want[0] == 'namespace':
                        if files:
                            violations.append({
                                'label': '%s resolves a namespace package to a file' % label,
                                'input': repr({'stmt': stmt, 'r1': (k1, c1), 'r2': (k2, c2)}),
                                'observed': 'jedi %r' % files,
                                'kind': 'A:' + stmt})
            if len(samples) < 3:
                samples.append({'r1': (k1, c1), 'r2': (k2, c2), 'init': init, 'order': order,
                                'oracle': list(zip([q[1] for q in qs], oracle))[:4]})
        finally:
            shutil.rmtree(top, ignore_errors=True)
    return evaluations, violations, samples


# --------------------------------------------------------------------------------------------------------------------
# part B (generated project layouts)
# --------------------------------------------------------------------------------------------------------------------

POOL = ['ka', 'kb', 'kc', 'kdd']        # names of modules / packages / namespace packages AND of attributes
ATTRS = POOL + ['fa', 'fb']             # names of functions / classes / strings defined in modules
SCRIPT_IN_ROOT = 'zmain'                # a script that lies directly in a sys.path root
MAX_DOTTED = 4                          # depth bound of the property's quantifier
# number of entries of a directory, by depth of the directory below the sys.path root
COUNTS = {0: [1, 2, 2, 3], 1: [0, 1, 2, 2, 3], 2: [0, 1, 1, 2, 2], 3: [0, 1, 1, 2]}
SHAPES = ['mod', 'pkg', 'ns', 'mod+pkg', 'mod+ns']
SHAPE_WEIGHTS = [30, 38, 14, 10, 8]
TAGS = ['circular re-export of the name',
        'from . import name after a binding of that name in the same __init__',
        'name bound in a star-imported module that star-imports it too',
        'star import after an explicit binding of the same name',
        'star-imported name that is also the name of a sub-module of the package']
N_QUERIES = {'quick': 90, 'thorough': 140}
N_LAYOUTS = {'quick': 120, 'thorough': 500}

ORACLE_B = r'''
import sys, json, importlib, importlib.util, importlib.machinery, os, types, ast, re
sys.dont_write_bytecode = True
cfg = json.loads(sys.stdin.readline())
top = cfg['top']
if cfg['mode'] == 'sys_path':
    sys.path[:0] = cfg['roots']
elif cfg['mode'] == 'smart':
    # Project(<dir>): the directory of the project / script first, then the interpreter's own sys.path
    sys.path[:] = cfg['roots'] + cfg['base_sys_path']
else:
    # Project(added_sys_path=...): the interpreter's own sys.path (without the script directory), then the roots
    sys.path[:] = cfg['base_sys_path'] + cfg['roots']
TOPS = set(cfg['tops'])
saved = list(sys.path)
sys.path[:] = [p for p in sys.path if p not in cfg['roots']]
for t in sorted(TOPS):
    if importlib.util.find_spec(t) is not None:
        raise SystemExit('HARNESS: name %r of the pool is importable without the generated roots' % t)
sys.path[:] = saved
norm = os.path.normpath


def fresh():
    for m in [k for k in list(sys.modules) if k.split('.')[0] in TOPS]:
        del sys.modules[m]


def describe(obj):
    if isinstance(obj, types.ModuleType):
        f = getattr(obj, '__file__', None)
        if f:
            return ['file', norm(f)]
        return ['namespace', [norm(p) for p in obj.__path__]]
    if isinstance(obj, types.FunctionType):
        return ['def', norm(obj.__code__.co_filename), obj.__code__.co_firstlineno, obj.__name__, 'function']
    loc = None
    kind = None
    if isinstance(obj, type) and isinstance(vars(obj).get('LOC'), str):
        loc, kind = vars(obj)['LOC'], 'class'
    elif isinstance(obj, str):
        loc, kind = obj, 'statement'
    if loc is not None and loc.startswith('LOC:'):
        _, rel, line, name = loc.split(':')
        return ['def', norm(os.path.join(top, rel)), int(line), name, kind]
    return ['value', type(obj).__name__]


_parsed = {}


def parsed(module):
    if module.__file__ not in _parsed:
        with open(module.__file__) as f:
            _parsed[module.__file__] = ast.parse(f.read())
    return _parsed[module.__file__]


def star_source(module, node):
    pkg = module.__name__ if hasattr(module, '__path__') else module.__name__.rpartition('.')[0]
    try:
        return sys.modules.get(importlib.util.resolve_name('.' * node.level + (node.module or ''), pkg))
    except ImportError:
        return None


def binds(module, name, submodule_import_counts):
    """does the code of `module` bind the global `name`?  (`from . import name` in a package __init__ binds the
    sub-module itself and only counts if asked for)"""
    for node in parsed(module).body:
        if isinstance(node, (ast.FunctionDef, ast.ClassDef)) and node.name == name:
            return True
        if isinstance(node, ast.Assign) and any(isinstance(t, ast.Name) and t.id == name for t in node.targets):
            return True
        if isinstance(node, ast.Import) and any((a.asname or a.name.split('.')[0]) == name for a in node.names):
            return True
        if isinstance(node, ast.ImportFrom):
            if node.level == 1 and not node.module and hasattr(module, '__path__') and not submodule_import_counts:
                continue
            for a in node.names:
                if a.name == '*':
                    src = star_source(module, node)
                    if src is None or name in vars(src):
                        return True
                elif (a.asname or a.name) == name:
                    return True
    return False


def implicit_star_copies():
    """ids of sub-modules that some module of the tree got through `from package import *` although the code of
    that package never binds them (they are attributes of the package only because they were imported before)"""
    ids = set()
    for name, x in list(sys.modules.items()):
        if name.split('.')[0] not in TOPS or not getattr(x, '__file__', None):
            continue
        for node in parsed(x).body:
            if isinstance(node, ast.ImportFrom) and any(a.name == '*' for a in node.names):
                src = star_source(x, node)
                if src is None or not getattr(src, '__file__', None):
                    continue
                for n, v in list(vars(src).items()):
                    if isinstance(v, types.ModuleType) and v.__name__ == src.__name__ + '.' + n \
                            and vars(x).get(n) is v and not binds(src, n, True):
                        ids.add(id(v))
    return ids


def conflict(names):
    """A package attribute and a sub-module of the same name were both bound while this process ran: Python lets
    whichever was bound last win, i.e. the history of the process decides and no static answer exists.  (Only names
    that occur in the statement: the files never rename what they re-export.)"""
    for name, m in list(sys.modules.items()):
        parent, _, child = name.rpartition('.')
        if not parent or parent.split('.')[0] not in TOPS or child not in names:
            continue
        p = sys.modules.get(parent)
        if p is None or not getattr(p, '__file__', None):
            continue
        if vars(p).get(child) is not m:
            return [parent, child, 'the attribute was rebound after the sub-module was imported']
        if binds(p, child, False):
            return [parent, child, 'the sub-module import has overwritten an attribute']
    return None


def binds_explicitly(module, name):
    for node in parsed(module).body:
        if isinstance(node, (ast.FunctionDef, ast.ClassDef)) and node.name == name:
            return True
        if isinstance(node, ast.Assign) and any(isinstance(t, ast.Name) and t.id == name for t in node.targets):
            return True
        if isinstance(node, ast.Import) and any((a.asname or a.name.split('.')[0]) == name for a in node.names):
            return True
        if isinstance(node, ast.ImportFrom) and any((a.asname or a.name) == name for a in node.names):
            return True
    return False


SCRIPT = types.ModuleType('__main__')


def order_quirks(names, importer, stmt):
    """Files that bind one of the names twice in a way where only the order of the statements decides (jedi lets the
    last explicit binding win and looks at star imports last): reported under labels of their own.  The statement
    counts as the last line of the importing file."""
    tags = set()
    bodies = [(x, parsed(x).body + (ast.parse(stmt).body if mname == importer else []))
              for mname, x in list(sys.modules.items())
              if mname.split('.')[0] in TOPS and getattr(x, '__file__', None)]
    if importer is None:
        bodies.append((SCRIPT, ast.parse(stmt).body))
    # (module, name) -> (module, name) it is imported from
    edges = {}
    for x, body in bodies:
        for node in body:
            if isinstance(node, ast.ImportFrom):
                src = star_source(x, node)
                if src is None or src is x:
                    # (`from . import sub` in a package __init__ binds the sub-module, it is no re-export)
                    continue
                for a in node.names:
                    if a.name == '*':
                        for n in names:
                            if n in vars(src):
                                edges.setdefault((x.__name__, n), set()).add((src.__name__, n))
                    elif a.name in names:
                        edges.setdefault((x.__name__, a.asname or a.name), set()).add((src.__name__, a.name))
    for start in sorted(edges):
        seen, todo = set(), [start]
        while todo:
            for nxt in edges.get(todo.pop(), ()):
                if nxt == start:
                    tags.add('circular re-export of the name')
                if nxt not in seen:
                    seen.add(nxt)
                    todo.append(nxt)
    for x, body in bodies:
        explicit = set()
        for node in body:
            if isinstance(node, (ast.FunctionDef, ast.ClassDef)):
                explicit.add(node.name)
            elif isinstance(node, ast.Assign):
                explicit.update(t.id for t in node.targets if isinstance(t, ast.Name))
            elif isinstance(node, ast.Import):
                explicit.update(a.asname or a.name.split('.')[0] for a in node.names)
            elif isinstance(node, ast.ImportFrom):
                for a in node.names:
                    if a.name == '*':
                        src = star_source(x, node)
                        if src is not None and any(n in names and n in vars(src) for n in explicit):
                            tags.add('star import after an explicit binding of the same name')
                        if src is not None and hasattr(x, '__path__') and any(
                                n in vars(src) and importlib.machinery.PathFinder.find_spec(n, list(x.__path__))
                                for n in sorted(names)):
                            tags.add('star-imported name that is also the name of a sub-module of the package')
                        if src is not None and getattr(src, '__file__', None):
                            # x: from src import *;  src: from deeper import * and an own binding of the name
                            own = {n for n in names if binds_explicitly(src, n)}
                            for inner in parsed(src).body:
                                if isinstance(inner, ast.ImportFrom) and any(b.name == '*' for b in inner.names):
                                    deeper = star_source(src, inner)
                                    if deeper is not None and any(n in vars(deeper) for n in own):
                                        tags.add('name bound in a star-imported module that star-imports it too')
                    else:
                        n = a.asname or a.name
                        if hasattr(x, '__path__') and n in explicit and n in names and (
                                node.level == 1 and not node.module or star_source(x, node) is x):
                            # (also spelled absolutely: from <this package> import name)
                            tags.add('from . import name after a binding of that name in the same __init__')
                        explicit.add(n)
    return sorted(tags)


# ---- phase 1: which files / dotted names can be imported, and which public names do the modules have
files = []
for path, dotted in cfg['files']:
    fresh()
    try:
        m = importlib.import_module(dotted)
    except ImportError as e:
        files.append(['error', type(e).__name__ + ': ' + str(e)])
    else:
        f = getattr(m, '__file__', None)
        files.append(['ok', norm(f) if f else None])
paths = {}
for dotted in cfg['paths']:
    fresh()
    try:
        m = importlib.import_module(dotted)
    except ImportError as e:
        paths[dotted] = None
    else:
        paths[dotted] = {'kind': 'file' if getattr(m, '__file__', None) else 'namespace',
                         'names': sorted(n for n in vars(m) if not n.startswith('_'))}
print('ORACLE-B1 ' + json.dumps({'files': files, 'paths': paths}))
sys.stdout.flush()

# ---- phase 2: the statements
out = []
for importer, stmt, usage, wanted, frompart in json.loads(sys.stdin.readline()):
    fresh()
    if importer is None:
        ns = {'__name__': '__main__', '__package__': None, '__builtins__': __builtins__}
    else:
        try:
            ns = importlib.import_module(importer).__dict__
        except ImportError as e:
            out.append(['importer-failed', type(e).__name__ + ': ' + str(e)])
            continue
    try:
        exec(stmt, ns)
        obj = eval(usage, ns)
    except ModuleNotFoundError as e:
        # only the failure of the queried import itself counts, not a broken import inside a module of the tree
        if e.name is not None and (wanted == e.name or wanted.startswith(e.name + '.')):
            out.append(['error', 'ModuleNotFoundError', e.name])
        else:
            out.append(['other', 'nested ModuleNotFoundError: ' + str(e)])
        continue
    except ImportError as e:
        out.append(['error', type(e).__name__, str(e)])
        continue
    except (NameError, AttributeError) as e:
        out.append(['other', type(e).__name__ + ': ' + str(e)])     # the name is not bound by the statement
        continue
    res = describe(obj)
    names = set(re.findall(r'\w+', stmt + ' ' + usage))
    q = conflict(names)
    if q:
        res = ['conflict', q]
    elif stmt.endswith('*') and isinstance(obj, types.ModuleType) and obj.__name__ == wanted + '.' + usage \
            and getattr(sys.modules[wanted], '__file__', None) and not binds(sys.modules[wanted], usage, True):
        # a star import also copies the sub-modules that happen to be imported already, although the code of
        # the package never binds them: again the history of the process
        res = ['conflict', [wanted, usage, 'sub-module that is only implicitly an attribute of the package']]
    elif isinstance(obj, types.ModuleType) and id(obj) in implicit_star_copies():
        res = ['conflict', [obj.__name__, usage, 'sub-module that a star import copied although no code binds it']]
    out.append(res)
    if res[0] != 'conflict':
        res.append({'from': describe(sys.modules[wanted]) if frompart and wanted in sys.modules else None,
                    'tags': order_quirks(names, importer, stmt)})
print('ORACLE-B2 ' + json.dumps(out))
sys.stdout.flush()
'''


def _gen_root(rng, rootname):
    """One sys.path root.  Returns (files {path relative to top: text}, dirs, dotted names spelled by the paths below
    this root, list of (relative path, dotted name) of the files that win inside this root)."""
    files = {}
    dirs = set()
    info = {}           # dotted -> {'kind', 'exports'} for the entry that wins inside this root
    earlier = []        # dotted names of this root generated so far (only these are imported by later files)
    file_list = []

    def content(rel, dotted, is_init, children):
        package = dotted if is_init else dotted[:-1]
        cands = []      # (statement, bound names)
        if is_init:
            local = [(c, dotted + (c,)) for c in children]
        else:
            local = [(e[-1], e) for e in earlier if len(e) == len(dotted) and e[:-1] == dotted[:-1] and package]
        for name, full in local:
            cands.append(('from . import %s' % name, {name}))
            ex = sorted(info[full]['exports'])
            if ex:
                n = rng.choice(ex)
                cands.append(('from .%s import %s' % (name, n), {n}))
                cands.append(('from .%s import %s' % (name, n), {n}))
                cands.append(('from .%s import *' % name, set(ex)))
        if len(package) >= 2:
            for e in earlier:
                if len(e) == len(package) and e[:-1] == package[:-1] and e != package:
                    cands.append(('from .. import %s' % e[-1], {e[-1]}))
                    ex = sorted(info[e]['exports'])
                    if ex:
                        n = rng.choice(ex)
                        cands.append(('from ..%s import %s' % (e[-1], n), {n}))
        if earlier:
            for e in rng.sample(earlier, min(2, len(earlier))):
                if e == package or e == dotted:
                    continue
                ex = sorted(info[e]['exports'])
                if ex:
                    n = rng.choice(ex)
                    cands.append(('from %s import %s' % ('.'.join(e), n), {n}))
                if len(e) >= 2:
                    cands.append(('from %s import %s' % ('.'.join(e[:-1]), e[-1]), {e[-1]}))
                cands.append(('import %s' % '.'.join(e), {e[0]}))
        n_imp = rng.choices([0, 1, 2], weights=[30, 45, 25] if is_init else [45, 40, 15])[0]
        imports = rng.sample(cands, min(n_imp, len(cands)))
        n_def = rng.choices([0, 1, 2], weights=[30, 45, 25])[0]
        defs = [(n, rng.choice(['function', 'class', 'statement'])) for n in rng.sample(ATTRS, n_def)]
        parts = [('import', i) for i in imports] + [('def', d) for d in defs]
        if rng.random() < 0.5:
            parts.reverse()
        if rng.random() < 0.3:
            rng.shuffle(parts)
        lines = []
        exports = set()
        for kind, p in parts:
            if kind == 'import':
                lines.append(p[0])
                exports |= p[1]
            else:
                name, what = p
                loc = 'LOC:%s:%d:%s' % (rel, len(lines) + 1, name)
                if what == 'function':
                    lines.append('def %s(): return 0' % name)
                elif what == 'class':
                    lines.append("class %s: LOC = '%s'" % (name, loc))
                else:
                    lines.append("%s = '%s'" % (name, loc))
                exports.add(name)
        return ''.join(l + '\n' for l in lines), exports

    def gen_dir(rel, dotted, small):
        """fills the directory `rel` that spells the dotted prefix `dotted`; returns the names of the entries that
        can be imported from it"""
        depth = len(dotted)
        count = rng.choice([0, 1]) if small else rng.choice(COUNTS[depth])
        names = sorted(rng.sample(POOL, count), key=lambda n: rng.random())
        winners = []
        for name in names:
            full = dotted + (name,)
            shape = 'mod' if len(full) >= MAX_DOTTED or small else rng.choices(SHAPES, weights=SHAPE_WEIGHTS)[0]
            sub = os.path.join(rel, name)
            if 'pkg' in shape or 'ns' in shape:
                dirs.add(sub)
                mark = len(earlier)
                # (a directory that is shadowed by a module of the same name stays small)
                children = gen_dir(sub, full, shape == 'mod+ns')
                if shape == 'mod+ns':
                    # the module shadows the directory: nothing below it can be imported (the files exist)
                    del earlier[mark:]
                if 'pkg' in shape:
                    init_rel = os.path.join(sub, '__init__.py')
                    text, exports = content(init_rel, full, True, children)
                    files[init_rel] = text
                    file_list.append((init_rel, full))
                    info[full] = {'kind': 'pkg', 'exports': exports}
                else:
                    info[full] = {'kind': 'ns', 'exports': set()}
            if 'mod' in shape:
                mod_rel = sub + '.py'
                # a package shadows the module of the same name: the module cannot be imported, but the file exists
                shadowed = 'pkg' in shape
                saved = info.get(full)
                text, exports = content(mod_rel, full, False, [])
                files[mod_rel] = text
                if shadowed:
                    info[full] = saved
                else:
                    info[full] = {'kind': 'mod', 'exports': exports}
                    file_list.append((mod_rel, full))
            earlier.append(full)
            winners.append(name)
        return winners

    gen_dir(rootname, (), False)
    return files, dirs, sorted(info), file_list


def gen_layout(seed, index):
    """the project: files, directories, sys.path configuration (no statements yet)"""
    rng = random.Random('B:%s:%s' % (seed, index))
    n_roots = rng.choice([1, 2, 2, 2, 3])
    rootnames = ['r%d' % (i + 1) for i in range(n_roots)]
    files, dirs, paths, file_list = {}, set(), set(), []
    for r in rootnames:
        f, d, spelled, fl = _gen_root(rng, r)
        files.update(f)
        dirs |= d
        dirs.add(r)
        paths.update(spelled)
        file_list += fl
    script_root = rng.choice(rootnames)
    files[os.path.join(script_root, SCRIPT_IN_ROOT + '.py')] = ''
    file_list.append((os.path.join(script_root, SCRIPT_IN_ROOT + '.py'), (SCRIPT_IN_ROOT,)))
    order = list(rootnames)
    rng.shuffle(order)
    spelling = {r: rng.choices(['', os.sep], weights=[65, 35])[0] for r in rootnames}
    mode = rng.choices(['sys_path', 'added_sys_path'], weights=[75, 25])[0]
    if n_roots == 1 and rng.random() < 0.25:
        # the default configuration: Project(<directory>) with smart_sys_path, the project directory is the root
        mode = 'smart'
        spelling = {r: '' for r in rootnames}
    return {'index': index, 'roots': [r + spelling[r] for r in order], 'mode': mode, 'files': files,
            'dirs': sorted(dirs), 'file_list': [(rel, '.'.join(dotted)) for rel, dotted in file_list],
            'paths': ['.'.join(p) for p in sorted(paths)]}


def gen_queries(seed, layout, facts, n_queries):
    """Import statements for the project.  `facts` are the answers of the interpreter about the project (which files
    it loads under which name, which dotted names can be imported, the public names of every module); they only steer
    the sampling towards statements that bind something."""
    rng = random.Random('Q:%s:%s' % (seed, layout['index']))
    all_paths = [tuple(p.split('.')) for p in layout['paths']]
    ok_paths = [p for p in all_paths if facts['paths'].get('.'.join(p))]
    bad_paths = [p for p in all_paths if not facts['paths'].get('.'.join(p))]
    importers = [(rel, tuple(dotted.split('.'))) for (rel, dotted), ok in zip(layout['file_list'], facts['importable'])
                 if ok]
    inside = [(rel, dotted) for rel, dotted in importers
              if len(dotted) > 1 or rel.endswith('__init__.py')]
    if layout['mode'] == 'smart':
        # smart_sys_path appends every directory without __init__.py between the project and the edited file to
        # sys.path (it takes them for script directories, a documented heuristic that namespace packages defeat):
        # only from files below regular packages does jedi search exactly the interpreter's sys.path
        def regular(rel):
            d = os.path.dirname(rel)
            while os.sep in d:
                if os.path.join(d, '__init__.py') not in layout['files']:
                    return False
                d = os.path.dirname(d)
            return True
        inside = [(rel, dotted) for rel, dotted in inside if regular(rel)]
        # ... and for inference it also appends the package directories themselves (GH #1446), where a module can
        # win against a namespace package of the project directory: relative imports are left to the other modes
        inside = []

    def names_of(path):
        f = facts['paths'].get('.'.join(path))
        return f['names'] if f else []

    def children_of(path):
        return sorted({p[len(path)] for p in all_paths if len(p) > len(path) and p[:len(path)] == path})

    def some_path(near_miss):
        r = rng.random()
        if ok_paths and r >= near_miss:
            return rng.choice(ok_paths)
        if bad_paths and r < near_miss / 2:
            return rng.choice(bad_paths)        # spelled by some directory entry, but not importable (shadowed)
        prefix = rng.choice([()] + [p for p in all_paths if len(p) < MAX_DOTTED])
        return prefix + (rng.choice(POOL),)

    def some_attr(path):
        r = rng.random()
        names, kids = names_of(path), children_of(path)
        if names and r < 0.5:
            return rng.choice(names)
        if kids and r < 0.85:
            return rng.choice(kids)
        return rng.choice(ATTRS)

    forms = ['import', 'import as', 'from', 'from', 'from as', 'star', 'rel', 'rel', 'rel as', 'rel mod', 'rel mod',
             'rel mod as', 'rel star']
    queries = []
    seen = set()
    for _ in range(n_queries * 4):
        if len(queries) >= n_queries:
            break
        form = rng.choice(forms)
        if form.startswith('rel'):
            if not inside:
                continue
            rel, dotted = rng.choice(inside)
            package = dotted if rel.endswith('__init__.py') else dotted[:-1]
            level = rng.randint(1, len(package))
            base = package[:len(package) - level + 1]
            dots = '.' * level
            if form in ('rel', 'rel as'):
                name = some_attr(base)
                wanted = base
                q = ('from %s import %s' % (dots, name), name) if form == 'rel' else \
                    ('from %s import %s as zz' % (dots, name), 'zz')
            else:
                kids = [p for p in ok_paths if len(base) < len(p) <= len(base) + 2 and p[:len(base)] == base]
                if kids and rng.random() < 0.85:
                    target = rng.choice(kids)
                else:
                    target = base + (rng.choice(POOL),)
                wanted = target
                sub = '.'.join(target[len(base):])
                name = some_attr(target)
                if form == 'rel mod':
                    q = ('from %s%s import %s' % (dots, sub, name), name)
                elif form == 'rel mod as':
                    q = ('from %s%s import %s as zz' % (dots, sub, name), 'zz')
                else:
                    q = ('from %s%s import *' % (dots, sub), name)
            importer = (rel, dotted)
        else:
            if layout['mode'] == 'smart':
                # (smart_sys_path also adds the directories between the project and the edited file: only the
                # script in the project directory sees exactly the interpreter's sys.path)
                importer = [(rel, dotted) for rel, dotted in importers if dotted == (SCRIPT_IN_ROOT,)][0]
            elif rng.random() < 0.35 or not importers:
                importer = ('main.py', None)
            else:
                importer = rng.choice(importers)
            if form in ('import', 'import as'):
                target = some_path(0.2)
                wanted = target
                t = '.'.join(target)
                q = ('import ' + t, t) if form == 'import' else ('import %s as zz' % t, 'zz')
            else:
                target = some_path(0.12)
                wanted = target
                name = some_attr(target)
                t = '.'.join(target)
                if form == 'from':
                    q = ('from %s import %s' % (t, name), name)
                elif form == 'from as':
                    q = ('from %s import %s as zz' % (t, name), 'zz')
                else:
                    q = ('from %s import *' % t, name)
        frompart = form in ('from', 'from as', 'star', 'rel mod', 'rel mod as', 'rel star')
        if form not in ('import', 'import as') and importer[1] is not None and tuple(wanted) == tuple(importer[1]):
            # a module that imports a name from itself: the bound name shadows the definition it refers to
            continue
        bound = q[1].split('.')[0]
        if importer[1] is not None:
            if bound in names_of(importer[1]):
                # the statement would rebind a name that the importing module has already: which binding other
                # modules (and, for a star import, the file itself) see is a question of statement order
                continue
            if importer[0].endswith('__init__.py') and bound in children_of(importer[1]):
                # (nor a name bound in a package __init__ that is also the name of a sub-module of that package)
                continue
        key = (importer[0], q)
        if key in seen:
            continue
        seen.add(key)
        queries.append({'importer': importer[0], 'dotted': '.'.join(importer[1]) if importer[1] else None,
                        'stmt': q[0], 'usage': q[1], 'form': form, 'wanted': '.'.join(wanted), 'frompart': frompart})
    return queries


def _describe_layout(layout, importer, stmt, usage):
    return repr({'sys.path': layout['roots'], 'mode': layout['mode'], 'from': importer, 'stmt': stmt, 'use': usage,
                 'files': {k: v for k, v in sorted(layout['files'].items())},
                 'empty dirs': [d for d in layout['dirs']
                                if not any(f.startswith(d + os.sep) for f in layout['files'])]})


def _names(got, top):
    out = []
    for n in got:
        p = n.module_path
        out.append((n.type, os.path.relpath(str(p), top) if p is not None else None, n.line, n.name))
    return sorted(out, key=repr)


def _ns_paths(n):
    """directories of a namespace package result (there is no public attribute for them)"""
    value = getattr(getattr(n, '_name', None), '_value', None)
    get = getattr(value, 'py__path__', None)
    if get is None:
        return None
    return [os.path.normpath(str(p)) for p in get()]


class _Oracle:
    """the child interpreter of one project"""

    def __init__(self, layout, top, cfg, program=None):
        self.err = tempfile.TemporaryFile(mode='w+', dir=os.environ['STANDIN_TMP'])
        flags = ['-B', '-S']
        env = dict(os.environ)
        env.pop('PYTHONSTARTUP', None)
        self.what = 'layout %s' % layout['index']
        self.p = subprocess.Popen([sys.executable] + flags + ['-c', program or ORACLE_B], stdin=subprocess.PIPE,
                                  stdout=subprocess.PIPE, stderr=self.err, text=True, cwd=top, env=env)
        self.send(cfg)

    def send(self, obj):
        try:
            self.p.stdin.write(json.dumps(obj) + '\n')
            self.p.stdin.flush()
        except OSError:
            self.fail('cannot write')

    def fail(self, why):
        self.p.kill()
        self.p.wait()
        self.err.seek(0)
        raise RuntimeError('C10 oracle process failed (%s, %s): %s' % (self.what, why, self.err.read()[-1500:]))

    def answer(self, tag):
        while True:
            line = self.p.stdout.readline()
            if not line:
                self.fail('no %s answer' % tag)
            if line.startswith(tag + ' '):
                return json.loads(line[len(tag) + 1:])

    def close(self):
        try:
            self.p.stdin.close()
        except OSError:
            pass
        if self.p.poll() is None:
            try:
                self.p.wait(timeout=60)
            except subprocess.TimeoutExpired:
                self.p.kill()
                self.p.wait()
        self.p.stdout.close()
        self.err.close()


def check_generated(args):
    import jedi
    from parso.cache import parser_cache
    seed, index, tier, base_sys_path = args
    layout = gen_layout(seed, index)
    violations = []
    evaluations = 0
    top = tempfile.mkdtemp(prefix='gen_', dir=os.environ['STANDIN_TMP'])
    oracle = None
    try:
        for d in layout['dirs']:
            os.makedirs(os.path.join(top, d), exist_ok=True)
        for rel, text in layout['files'].items():
            write(os.path.join(top, rel), text)
        roots = [os.path.join(top, r) for r in layout['roots']]
        cfg = {'top': top, 'roots': roots, 'mode': layout['mode'], 'tops': POOL + [SCRIPT_IN_ROOT],
               'base_sys_path': base_sys_path,
               'files': [[os.path.join(top, rel), dotted] for rel, dotted in layout['file_list']],
               'paths': sorted(set(layout['paths']) | {d for _, d in layout['file_list']})}
        oracle = _Oracle(layout, top, cfg)
        facts = oracle.answer('ORACLE-B1')
        facts['importable'] = [res[0] == 'ok' and res[1] == os.path.normpath(os.path.join(top, rel))
                               for (rel, dotted), res in zip(layout['file_list'], facts['files'])]
        queries = gen_queries(seed, layout, facts, N_QUERIES.get(tier, N_QUERIES['quick']))
        oracle.send([[q['dotted'], q['stmt'], q['usage'], q['wanted'], q['frompart']] for q in queries])
        answers = oracle.answer('ORACLE-B2')
        oracle.close()
        oracle = None
        if len(answers) != len(queries):
            raise RuntimeError('C10 harness: %d answers for %d statements' % (len(answers), len(queries)))
        if layout['mode'] == 'sys_path':
            project = jedi.Project(top, sys_path=roots, smart_sys_path=False)
        elif layout['mode'] == 'smart':
            project = jedi.Project(roots[0])
        else:
            project = jedi.Project(top, added_sys_path=roots, smart_sys_path=False)

        # ---- clause: the dotted name jedi derives for a file on sys.path imports back to that file
        for (rel, dotted), ok in zip(layout['file_list'], facts['importable']):
            if not ok:
                # a file that is shadowed by another sys.path entry or by a package / module of the same name cannot
                # be imported under any name: the clause says nothing about it
                continue
            path = os.path.join(top, rel)
            evaluations += 1
            try:
                parser_cache.clear()
                s = jedi.Script(layout['files'][rel] + 'zz = 1\n', path=path, project=project)
                full_names = [n.full_name for n in s.get_names() if n.name == 'zz']
            except Exception:
                violations.append({'label': 'query raised', 'input': _describe_layout(layout, rel, 'zz = 1', 'zz'),
                                   'observed': traceback.format_exc(limit=3), 'kind': 'dotted'})
                continue
            if len(full_names) != 1 or not (full_names[0] or '').endswith('.zz'):
                raise RuntimeError('C10 harness: no full_name for the probe name in %s: %r' % (rel, full_names))
            derived = full_names[0][:-len('.zz')]
            if derived != dotted:
                violations.append({
                    'label': 'dotted name derived for a file does not import back to it',
                    'input': _describe_layout(layout, rel, 'zz = 1', 'zz'),
                    'observed': 'jedi derives %r for %s; the interpreter loads this file as %r' % (derived, rel, dotted),
                    'kind': 'dotted:%s' % ('init' if rel.endswith('__init__.py') else 'module')})

        # ---- clause: an import statement resolves to what the interpreter binds
        for q, want in zip(queries, answers):
            if want[0] in ('value', 'other', 'importer-failed', 'conflict'):
                continue
            if want[0] == 'error' and want[1] != 'ModuleNotFoundError':
                continue        # cannot import name / beyond top-level package / circular: outside the clause
            body = layout['files'].get(q['importer'], '')
            code = body + q['stmt'] + '\n' + q['usage'] + '\n'
            line = body.count('\n') + 1
            path = os.path.join(top, q['importer'])
            star = q['form'].endswith('star')
            failing = want[0] == 'error'
            q_tags = [] if failing else want[-1]['tags']
            evaluations += 1
            try:
                # (jedi keeps the text given for a path as the content of that module for later imports of it, as an
                # editor buffer; the statements of this stand-in are independent experiments)
                parser_cache.clear()
                s = jedi.Script(code, path=path, project=project)
                results = []
                if not failing:
                    # (when the import fails, the name at the use may be bound by the text of the file itself)
                    col = len(q['usage']) - 1
                    results += [('infer', 'use', want, s.infer(line + 1, col)),
                                ('goto(follow_imports)', 'use', want, s.goto(line + 1, col, follow_imports=True))]
                if not star:
                    col = len(q['stmt']) - 1
                    results += [('infer', 'statement', want, s.infer(line, col)),
                                ('goto(follow_imports)', 'statement', want, s.goto(line, col, follow_imports=True))]
                if q['frompart']:
                    # the module named by the from-part
                    col = q['stmt'].index(' import ') - 1
                    fwant = want if failing else want[-1]['from']
                    if fwant is not None:
                        results += [('infer', 'from-part', fwant, s.infer(line, col)),
                                    ('goto(follow_imports)', 'from-part', fwant,
                                     s.goto(line, col, follow_imports=True))]
            except Exception:
                violations.append({'label': 'query raised',
                                   'input': _describe_layout(layout, q['importer'], q['stmt'], q['usage']),
                                   'observed': traceback.format_exc(limit=3), 'kind': q['form']})
                continue
            finally:
                parser_cache.clear()
            where = 'script' if q['dotted'] is None else \
                'init' if q['importer'].endswith('__init__.py') else 'module'
            for label, pos, want, got in results:
                bad = None
                mods = [n for n in got if n.type in ('module', 'namespace')]
                shown = _names(got, top)
                if want[0] == 'file':
                    files = sorted({os.path.normpath(str(n.module_path)) for n in mods if n.module_path is not None})
                    if files != [want[1]] or len(mods) != len(got):
                        bad = ('%s resolves an import to a different file than the interpreter' % label,
                               'python: module %s' % os.path.relpath(want[1], top))
                elif want[0] == 'namespace':
                    files = sorted({str(n.module_path) for n in mods if n.module_path is not None})
                    if files:
                        bad = ('%s resolves a namespace package to a file' % label,
                               'python: namespace %r' % [os.path.relpath(p, top) for p in want[1]])
                    else:
                        dirs = [_ns_paths(n) for n in got if n.type == 'namespace']
                        if not got or len(dirs) != len(got) or any(
                                d is not None and set(d) != set(want[1]) for d in dirs):
                            bad = ('%s resolves a namespace package to different directories' % label,
                                   'python: namespace %r, jedi: %r' % (
                                       [os.path.relpath(p, top) for p in want[1]],
                                       [d and [os.path.relpath(p, top) for p in d] for d in dirs]))
                elif want[0] == 'def':
                    wfile, wline, wname, wkind = want[1:5]
                    if label == 'infer' and wkind == 'statement':
                        # the value of a string assignment is an instance of str; it only must not be a module
                        if mods:
                            bad = ('%s resolves an imported name to a different definition than the interpreter'
                                   % label, 'python: string defined at %s:%d' % (os.path.relpath(wfile, top), wline))
                    else:
                        have = sorted((os.path.normpath(str(n.module_path)), n.line, n.name) for n in got
                                      if n.module_path is not None)
                        if have != [(wfile, wline, wname)] or len(have) != len(got):
                            bad = ('%s resolves an imported name to a different definition than the interpreter'
                                   % label, 'python: %s %s defined at %s:%d'
                                   % (wkind, wname, os.path.relpath(wfile, top), wline))
                elif want[0] == 'error':   # ModuleNotFoundError
                    if mods:
                        bad = ('%s resolves an import that fails in the interpreter' % label,
                               'python: ModuleNotFoundError for %s' % want[2])
                else:
                    raise RuntimeError('C10 harness: unexpected oracle answer %r' % (want,))
                if bad:
                    # (one suffix only, so that the labels stay few: the first in the order of TAGS)
                    tags = [t for t in TAGS if t in q_tags][:1]
                    if len(tags) < min(1, len(q_tags)):
                        raise RuntimeError('C10 harness: unknown tag in %r' % (q_tags,))
                    violations.append({'label': bad[0] + ''.join(' [%s]' % t for t in tags),
                                       'input': _describe_layout(layout, q['importer'], q['stmt'], q['usage']),
                                       'observed': '%s; jedi (%s at the %s): %r' % (bad[1], label, pos, shown),
                                       'kind': '%s from %s at %s, expecting %s' % (q['form'], where, pos, want[0])})
        sample = {'sys.path': layout['roots'], 'mode': layout['mode'], 'files': sorted(layout['files']),
                  'oracle': [(q['importer'], q['stmt'], w[:3]) for q, w in zip(queries, answers)
                             if w[0] in ('file', 'def', 'namespace', 'error')][:5]}
        stats = {}
        for q, w in zip(queries, answers):
            k = '%s -> %s' % (q['form'], w[0] if w[0] != 'error' else w[1])
            stats[k] = stats.get(k, 0) + 1
    finally:
        if oracle is not None:
            oracle.p.kill()
            oracle.p.wait()
        shutil.rmtree(top, ignore_errors=True)
    return evaluations, violations, [sample], stats


# --------------------------------------------------------------------------------------------------------------------
# part C (star import programs: several star imports in effect for one module)
# --------------------------------------------------------------------------------------------------------------------

C_TOPS = ['pa', 'pb', 'pc', 'pd']       # top-level packages
C_LEAVES = ['util', 'base', 'core']     # last name components: modules, sub-packages and top-level modules share them
C_SUBS = C_LEAVES + ['sub']
N_STAR_LAYOUTS = {'quick': 72, 'thorough': 300}
N_STAR_QUERIES = {'quick': 36, 'thorough': 60}

ORACLE_C = r'''
import sys, json, importlib, importlib.util, os, types
sys.dont_write_bytecode = True
cfg = json.loads(sys.stdin.readline())
top = cfg['top']
TOPS = set(cfg['tops'])
for t in sorted(TOPS):
    if importlib.util.find_spec(t) is not None:
        raise SystemExit('HARNESS: name %r of the pool is importable without the generated roots' % t)
sys.path[:0] = cfg['roots']
norm = os.path.normpath


def fresh():
    for m in [k for k in list(sys.modules) if k.split('.')[0] in TOPS]:
        del sys.modules[m]


def describe(obj):
    if isinstance(obj, types.ModuleType):
        f = getattr(obj, '__file__', None)
        if f:
            return ['file', norm(f), obj.__name__]
        return ['namespace', [norm(p) for p in obj.__path__], obj.__name__]
    if isinstance(obj, types.FunctionType):
        return ['def', norm(obj.__code__.co_filename), obj.__code__.co_firstlineno, obj.__name__, 'function']
    loc = kind = None
    if isinstance(obj, type) and isinstance(vars(obj).get('LOC'), str):
        loc, kind = vars(obj)['LOC'], 'class'
    elif isinstance(obj, str):
        loc, kind = obj, 'statement'
    if loc is not None and loc.startswith('LOC:'):
        _, rel, line, name = loc.split(':')
        return ['def', norm(os.path.join(top, rel)), int(line), name, kind]
    return ['value', type(obj).__name__]


out = []
for importer, stmts, usage in cfg['queries']:
    fresh()
    try:
        if importer is None:
            ns = {'__name__': '__main__', '__package__': None, '__builtins__': __builtins__}
        else:
            ns = importlib.import_module(importer).__dict__
        exec(stmts, ns)
    except Exception as e:
        # (every statement of the generated programs imports something that exists)
        out.append(['failed', type(e).__name__ + ': ' + str(e)])
        continue
    try:
        obj = eval(usage, ns)
    except (NameError, AttributeError):
        out.append(['unbound'])
        continue
    out.append(describe(obj))
print('ORACLE-C ' + json.dumps(out))
sys.stdout.flush()
'''


def gen_star_layout(seed, index):
    """A project for part C.  The files are generated in an order that is a topological order of the imports (a file
    only imports from files generated before it, a package __init__ after everything below the package, units one
    after the other): no import cycle, no partially initialised module, whatever is imported first.

    entries: [{'rel', 'dotted', 'init', 'exports': {name: object}, 'reach': [dotted names star-reachable, in order]}]
    objects: ('module', dotted) or ('def', rel, line, name, kind)"""
    rng = random.Random('C:%s:%s' % (seed, index))
    n_roots = rng.choice([1, 1, 2])
    rootnames = ['r%d' % (i + 1) for i in range(n_roots)]
    files = {}
    entries = []
    modules = {}        # dotted (tuple) -> ('file', rel) | ('namespace', [dirs])
    children = {}       # dotted of a package -> names of its sub-modules / sub-packages
    counter = [0]

    def unique(prefix):
        counter[0] += 1
        return '%s%d' % (prefix, counter[0])

    def spellings(package, target):
        """the ways to write the dotted name `target` in a from-import of a module of `package`"""
        out = ['.'.join(target)]
        c = 0
        while c < len(package) and c < len(target) and package[c] == target[c]:
            c += 1
        if c >= 1 and len(target) > c:
            out.append('.' * (len(package) - c + 1) + '.'.join(target[c:]))
        elif c >= 1 and len(target) == c:
            out.append('.' * (len(package) - c + 1))
        return out

    def statement(rng, package, t, alias_prefix, star_weight, own_children=()):
        """one import statement that refers to the earlier entry / namespace package `t`;
        returns (text, {bound name: object}, star-reached dotted names)"""
        dotted = t['dotted']
        forms = ['star'] * star_weight
        if t['exports']:
            forms += ['name as', 'name as', 'name']
        # A star import from a package also copies the sub-modules that happen to be imported already, under their
        # (shared) last names, and such a copy can hide a sub-module of the importing package: wherever a shared
        # name would be looked up as an ATTRIBUTE of a package (import pa.util as m, from pa import util) the
        # history of the process decides.  Modules with a shared last name are therefore only named in from-parts
        # (found by their full name); module objects are bound for top-level names and for the modules with a
        # project-unique name.
        if len(dotted) == 1:
            forms += ['import as', 'import as']
        elif dotted[-1] not in C_SUBS:
            forms += ['sub', 'sub', 'sub']
        form = rng.choice(forms)
        if form == 'import as':
            a = unique(alias_prefix)
            return 'import %s as %s' % (dotted[0], a), {a: ('module', dotted)}, []
        if form == 'sub':
            # the module as an attribute of its parent package: from . import x7, from pa.sub import x7 as m3
            parent = rng.choice(spellings(package, dotted[:-1]) if package else ['.'.join(dotted[:-1])])
            if rng.random() < 0.4:
                a = unique(alias_prefix)
                return 'from %s import %s as %s' % (parent, dotted[-1], a), {a: ('module', dotted)}, []
            return 'from %s import %s' % (parent, dotted[-1]), {dotted[-1]: ('module', dotted)}, []
        spelled = rng.choice(spellings(package, dotted) if package else ['.'.join(dotted)])
        if form == 'star':
            return 'from %s import *' % spelled, dict(t['exports']), t['reach'] + ['.'.join(dotted)]
        n = rng.choice(sorted(t['exports']))
        if form == 'name' and n not in own_children:
            # (own_children, known finding "[circular re-export of the name]" of part B: a package __init__ that
            # imports the name of one of its own sub-modules from a module that has it from `from . import name` -
            # pa/__init__.py: from .core import x9; pa/core.py: from . import x9; pa/x9.py - Python gives the
            # sub-module, jedi infers it but goto(follow_imports) returns [].  Such a name gets an alias.)
            return 'from %s import %s' % (spelled, n), {n: t['exports'][n]}, []
        a = unique(alias_prefix)
        return 'from %s import %s as %s' % (spelled, n, a), {a: t['exports'][n]}, []

    def gen_file(rel, dotted, is_init):
        package = dotted if is_init else dotted[:-1]
        targets = []
        if entries:
            n_imp = rng.choices([0, 1, 2, 3], weights=[15, 35, 35, 15])[0]
            for _ in range(n_imp):
                same = [e for e in entries if targets and e['dotted'][-1] in {t['dotted'][-1] for t in targets}
                        and e not in targets]
                pick = rng.choice(same) if same and rng.random() < 0.5 else rng.choice(entries)
                if pick not in targets:
                    targets.append(pick)
        parts = [('import', t) for t in targets]
        n_def = rng.choices([0, 1, 2], weights=[20, 50, 30])[0]
        parts += [('def', rng.choice(['function', 'class', 'statement'])) for _ in range(n_def)]
        rng.shuffle(parts)
        lines, exports, reach = [], {}, []
        for kind, p in parts:
            if kind == 'import':
                text, bound, reached = statement(rng, package, p, 'm', 5,
                                                 children.get(dotted, ()) if is_init else ())
                lines.append(text)
                exports.update(bound)
                reach += reached
            else:
                name = unique({'function': 'f', 'class': 'c', 'statement': 's'}[p])
                loc = 'LOC:%s:%d:%s' % (rel, len(lines) + 1, name)
                if p == 'function':
                    lines.append('def %s(): return 0' % name)
                elif p == 'class':
                    lines.append("class %s: LOC = '%s'" % (name, loc))
                else:
                    lines.append("%s = '%s'" % (name, loc))
                exports[name] = ('def', rel, len(lines), name, p)
        files[rel] = ''.join(l + '\n' for l in lines)
        modules[dotted] = ('file', rel)
        entries.append({'rel': rel, 'dotted': dotted, 'init': is_init, 'exports': exports, 'reach': reach})

    def gen_package(dirs, dotted, namespace):
        """dirs: the directories of the package (several for a namespace package that is split over the roots)"""
        depth = len(dotted)
        leaves = rng.sample(C_LEAVES, rng.choice([1, 2, 2, 3]))
        items = [(n, 'mod') for n in leaves]
        items += [(unique('x'), 'mod') for _ in range(rng.choice([0, 1, 1, 2]))]
        if depth < MAX_DOTTED - 1 and rng.random() < (0.5 if depth == 1 else 0.3):
            items.append((rng.choice([n for n in C_SUBS if n not in leaves]), 'pkg'))
        rng.shuffle(items)
        children[dotted] = [n for n, _ in items]
        for name, what in items:
            d = rng.choice(dirs)
            if what == 'mod':
                gen_file(os.path.join(d, name + '.py'), dotted + (name,), False)
            else:
                gen_package([os.path.join(d, name)], dotted + (name,), False)
        if namespace:
            modules[dotted] = ('namespace', list(dirs))
        else:
            gen_file(os.path.join(dirs[0], '__init__.py'), dotted, True)

    units = [(n, 'pkg') for n in rng.sample(C_TOPS, rng.choice([2, 3, 3, 4]))]
    if rng.random() < 0.45:
        units.append((rng.choice(C_LEAVES), 'mod'))
    rng.shuffle(units)
    namespace_unit = rng.choice([n for n, w in units if w == 'pkg']) if rng.random() < 0.2 else None
    for name, what in units:
        if what == 'mod':
            gen_file(os.path.join(rng.choice(rootnames), name + '.py'), (name,), False)
        elif name == namespace_unit:
            gen_package([os.path.join(r, name) for r in rootnames], (name,), True)
        else:
            gen_package([os.path.join(rng.choice(rootnames), name)], (name,), False)
    script_root = rng.choice(rootnames)
    files[os.path.join(script_root, SCRIPT_IN_ROOT + '.py')] = ''
    order = list(rootnames)
    rng.shuffle(order)

    all_names = sorted({n for e in entries for n in e['exports']})
    return {'index': index, 'roots': order, 'files': files, 'entries': entries, 'modules': modules,
            'children': children, 'all_names': all_names, 'script_in_root': os.path.join(script_root, SCRIPT_IN_ROOT + '.py'),
            'statement': statement}


def gen_star_programs(seed, layout, n_queries):
    rng = random.Random('CQ:%s:%s' % (seed, layout['index']))
    entries, statement = layout['entries'], layout['statement']
    queries, seen = [], set()
    for _ in range(n_queries * 4):
        if len(queries) >= n_queries:
            break
        r = rng.random()
        if r < 0.3:
            importer, idx = ('main.py', None, None), len(entries)
        elif r < 0.42:
            importer, idx = (layout['script_in_root'], SCRIPT_IN_ROOT, None), len(entries)
        else:
            idx = rng.randrange(len(entries))
            importer = (entries[idx]['rel'], '.'.join(entries[idx]['dotted']), entries[idx])
        available = entries[:idx]
        if not available:
            continue
        entry = importer[2]
        package = () if entry is None else entry['dotted'] if entry['init'] else entry['dotted'][:-1]
        bound = dict(entry['exports']) if entry else {}
        reach = list(entry['reach']) if entry else []
        new = {}
        lines, targets, modules_bound = [], [], []
        for _ in range(rng.choices([1, 2, 3], weights=[25, 45, 30])[0]):
            same = [e for e in available if targets and e['dotted'][-1] in {t['dotted'][-1] for t in targets}
                    and e not in targets]
            t = rng.choice(same) if same and rng.random() < 0.55 else rng.choice(available)
            if t in targets:
                continue
            targets.append(t)
            text, b, reached = statement(rng, package, t, 'zq', 6)
            lines.append(text)
            new.update(b)
            reach += reached
            if text.startswith('import '):
                modules_bound.append((sorted(b)[0], t))
        bound.update(new)
        if entry is not None and entry['init'] and set(new) & set(layout['children'].get(entry['dotted'], ())):
            # Known finding "[circular re-export of the name]" (part B): a package __init__ that imports the name of
            # one of its own sub-modules from a module that got it with `from <the package> import name`
            # (pb/__init__.py: from pb.sub import x1; pb/sub/__init__.py: from .. import x1; pb/x1.py): Python gives the
            # sub-module, jedi infers it but goto(follow_imports) returns [].  As in part B a program in a package
            # __init__ does not bind the name of a sub-module of that package.
            continue
        r = rng.random()
        with_attr = [(a, t) for a, t in modules_bound if t['exports']]
        if with_attr and r < 0.2:
            a, t = rng.choice(with_attr)
            n = rng.choice(sorted(t['exports']))
            usage, expected = '%s.%s' % (a, n), t['exports'][n]
        elif new and r < 0.8:
            usage = rng.choice(sorted(new))
            expected = new[usage]
        else:
            usage = rng.choice(layout['all_names'])
            expected = bound.get(usage)
            if expected is None and entry is not None and entry['init'] \
                    and usage in layout['children'].get(entry['dotted'], ()):
                # (a bare name in a package __init__ that is the name of a sub-module of the package and that no code
                # binds: bound in the interpreter if and only if something has imported the sub-module before)
                continue
        key = (importer[0], tuple(lines), usage)
        if key in seen:
            continue
        seen.add(key)
        last = [d.rpartition('.')[2] for d in dict.fromkeys(reach)]
        queries.append({'importer': importer[0], 'dotted': importer[1], 'stmts': ''.join(l + '\n' for l in lines),
                        'usage': usage, 'expected': expected, 'n_star': sum(l.endswith('*') for l in lines),
                        'reach': len(set(reach)), 'clash': len(set(last)) < len(last)})
    return queries


def _static_answer(layout, top, expected):
    """what the generator expects the interpreter to answer (a second, independent oracle for the harness itself)"""
    if expected is None:
        return ['unbound']
    if expected[0] == 'module':
        kind, where = layout['modules'][tuple(expected[1])]
        if kind == 'file':
            return ['file', os.path.normpath(os.path.join(top, where))]
        return ['namespace', sorted(os.path.normpath(os.path.join(top, d)) for d in where)]
    _, rel, line, name, kind = expected
    return ['def', os.path.normpath(os.path.join(top, rel)), line, name, kind]


def check_star_programs(args):
    import jedi
    from parso.cache import parser_cache
    seed, index, tier = args
    layout = gen_star_layout(seed, index)
    queries = gen_star_programs(seed, layout, N_STAR_QUERIES.get(tier, N_STAR_QUERIES['quick']))
    violations = []
    evaluations = 0
    stats = {}
    top = tempfile.mkdtemp(prefix='star_', dir=os.environ['STANDIN_TMP'])
    oracle = None
    try:
        for rel, text in layout['files'].items():
            write(os.path.join(top, rel), text)
        roots = [os.path.join(top, r) for r in layout['roots']]
        for r in roots:
            os.makedirs(r, exist_ok=True)
        cfg = {'top': top, 'roots': roots, 'tops': C_TOPS + C_LEAVES + [SCRIPT_IN_ROOT],
               'queries': [[q['dotted'], q['stmts'], q['usage']] for q in queries]}
        oracle = _Oracle(layout, top, cfg, ORACLE_C)
        answers = oracle.answer('ORACLE-C')
        oracle.close()
        oracle = None
        if len(answers) != len(queries):
            raise RuntimeError('C10 harness: %d answers for %d programs' % (len(answers), len(queries)))
        project = jedi.Project(top, sys_path=roots, smart_sys_path=False)
        for q, want in zip(queries, answers):
            static = _static_answer(layout, top, q['expected'])
            if want[0] == 'namespace':
                want[1] = sorted(want[1])
            if want[0] in ('file', 'namespace') and want[:len(static)] != static:
                # The interpreter binds a module where the code of the project binds nothing or another module: a
                # sub-module is an attribute of its package (and copied by a star import from the package, where it
                # can hide a sub-module of the same name of the importing package) only because something imported
                # it before, i.e. the history of the process decides.
                stats['no expectation (history of the process)'] = stats.get('no expectation (history of the process)', 0) + 1
                continue
            if want[:len(static)] != static or want[0] in ('failed', 'value'):
                raise RuntimeError('C10 harness: the interpreter answers %r, the generator expected %r for %r in %s'
                                   % (want, static, (q['stmts'], q['usage']),
                                      _describe_star(layout, q)))
            body = layout['files'].get(q['importer'], '')
            code = body + q['stmts'] + q['usage'] + '\n'
            line = code.count('\n')
            col = len(q['usage']) - 1
            path = os.path.join(top, q['importer'])
            evaluations += 1
            k = '%d star import(s)%s -> %s' % (q['n_star'], ', modules with the same last name reached' if q['clash']
                                             else '', want[0])
            stats[k] = stats.get(k, 0) + 1
            try:
                parser_cache.clear()
                s = jedi.Script(code, path=path, project=project)
                results = [('infer', s.infer(line, col)),
                           ('goto(follow_imports)', s.goto(line, col, follow_imports=True))]
            except Exception:
                violations.append({'label': 'query raised', 'input': _describe_star(layout, q),
                                   'observed': traceback.format_exc(limit=3), 'kind': 'star program'})
                continue
            finally:
                parser_cache.clear()
            for label, got in results:
                bad = None
                mods = [n for n in got if n.type in ('module', 'namespace')]
                if want[0] == 'file':
                    found = sorted({os.path.normpath(str(n.module_path)) for n in mods if n.module_path is not None})
                    if found != [want[1]] or len(mods) != len(got):
                        bad = ('%s resolves an import to a different file than the interpreter' % label,
                               'python: module %s' % os.path.relpath(want[1], top))
                elif want[0] == 'namespace':
                    dirs = [_ns_paths(n) for n in got if n.type == 'namespace']
                    if not got or len(dirs) != len(got) or any(d is not None and set(d) != set(want[1]) for d in dirs):
                        bad = ('%s resolves a namespace package to different directories' % label,
                               'python: namespace %r' % [os.path.relpath(p, top) for p in want[1]])
                elif want[0] == 'def':
                    wfile, wline, wname, wkind = want[1:5]
                    if label == 'infer' and wkind == 'statement':
                        if mods:
                            bad = ('%s resolves an imported name to a different definition than the interpreter'
                                   % label, 'python: string defined at %s:%d' % (os.path.relpath(wfile, top), wline))
                    else:
                        have = sorted((os.path.normpath(str(n.module_path)), n.line, n.name) for n in got
                                      if n.module_path is not None)
                        if have != [(wfile, wline, wname)] or len(have) != len(got):
                            bad = ('%s resolves an imported name to a different definition than the interpreter'
                                   % label, 'python: %s %s defined at %s:%d'
                                   % (wkind, wname, os.path.relpath(wfile, top), wline))
                else:   # unbound
                    if got:
                        bad = ('%s resolves a name that no import of the program binds' % label,
                               'python: NameError / AttributeError')
                if bad:
                    violations.append({'label': bad[0], 'input': _describe_star(layout, q),
                                       'observed': '%s; jedi (%s at the use): %r' % (bad[1], label, _names(got, top)),
                                       'kind': 'star program (%d star imports, %s) expecting %s'
                                               % (min(q['n_star'], 2), 'clash' if q['clash'] else 'no clash', want[0])})
        sample = {'sys.path': layout['roots'], 'files': sorted(layout['files']),
                  'programs': [(q['importer'], q['stmts'], q['usage'],
                                [w[0]] + ([os.path.relpath(w[1], top)] if w[0] in ('file', 'def') else []) + w[2:4])
                               for q, w in zip(queries, answers)][:4]}
    finally:
        if oracle is not None:
            oracle.p.kill()
            oracle.p.wait()
        shutil.rmtree(top, ignore_errors=True)
    return evaluations, violations, [sample], stats


def _describe_star(layout, q):
    return repr({'sys.path': layout['roots'], 'from': q['importer'], 'program': q['stmts'], 'use': q['usage'],
                 'files': {k: v for k, v in sorted(layout['files'].items())}})


def interpreter_sys_path():
    """sys.path of a fresh interpreter of the environment (what Project(added_sys_path=...) extends)"""
    env = dict(os.environ)
    env.pop('PYTHONSTARTUP', None)
    p = subprocess.run([sys.executable, '-c', 'import sys, json; print("SYS-PATH " + json.dumps(sys.path))'],
                       capture_output=True, text=True, env=env, cwd=os.environ['STANDIN_TMP'], timeout=300)
    lines = [l for l in p.stdout.splitlines() if l.startswith('SYS-PATH ')]
    if p.returncode != 0 or not lines:
        raise RuntimeError('C10 harness: cannot get sys.path of the interpreter: %s' % p.stderr[-500:])
    return [x for x in json.loads(lines[-1][len('SYS-PATH '):]) if x != '']


def run(repo, seed, tier):
    import multiprocessing as mp
    base = interpreter_sys_path()
    lay = layouts(tier, seed)
    n_generated = N_LAYOUTS.get(tier, N_LAYOUTS['quick'])
    n_star = N_STAR_LAYOUTS.get(tier, N_STAR_LAYOUTS['quick'])
    with mp.get_context('fork').Pool(min(16, os.cpu_count() or 4), initializer=_init_worker) as pool:
        gen = pool.map_async(check_generated, [(seed, i, tier, base) for i in range(n_generated)], chunksize=1)
        star = pool.map_async(check_star_programs, [(seed, i, tier) for i in range(n_star)], chunksize=1)
        results = pool.map(check_layout, lay, chunksize=2)
        results_b = gen.get()
        results_c = star.get()
    evaluations = sum(r[0] for r in results) + sum(r[0] for r in results_b) + sum(r[0] for r in results_c)
    violations = [v for r in results for v in r[1]] + [v for r in results_b for v in r[1]] \
        + [v for r in results_c for v in r[1]]
    samples = [x for r in results for x in r[2]][:1] + [x for r in results_b for x in r[2]][:2] \
        + [x for r in results_c for x in r[2]][:1]
    star_stats = {}
    for r in results_c:
        for k, v in r[3].items():
            star_stats[k] = star_stats.get(k, 0) + v
    stats = {}
    for r in results_b:
        for k, v in r[3].items():
            stats[k] = stats.get(k, 0) + v
    counts = {}
    per_kind = {}
    reported = []
    # the smallest reproducers first
    violations.sort(key=lambda v: len(v['input']))
    for v in violations:
        counts[v['label']] = counts.get(v['label'], 0) + 1
        k = (v['label'], v.pop('kind', ''))
        per_kind[k] = per_kind.get(k, 0) + 1
        if per_kind[k] <= 3 and len(reported) < 60:
            reported.append(v)
    reported.sort(key=lambda v: (v['label'], len(v['input'])))
    return {'name': 'C10.import-resolution', 'contract': 'C10.import',
            'evaluations': evaluations, 'distinct_nontrivial': evaluations,
            'rule': 'A: two sys.path roots in either order; node a in each root absent/module/package/namespace with child b '
                    'absent/module/package; package __init__ empty or re-importing b; 9 import forms (absolute, aliased, '
                    'from-import, relative level 1 and 2); quick = seeded random half of the competing and third of the '
                    'other layouts.  B: %d seeded random projects: 1-3 sys.path roots in random order, entries spelled with '
                    'or without a trailing separator, given as Project(sys_path=), Project(added_sys_path=) or, for one root, as the '
                    'directory of a default Project (smart_sys_path; then only absolute imports from the script in it); trees of '
                    'dotted depth <= 4 over the name pool %r, each node module / package / namespace package / module '
                    'plus directory of the same name; files define functions, classes and strings under pool names and '
                    're-export names of children, earlier siblings, uncles and other packages (relative, absolute, star); '
                    'per project <= %d sampled statements of the forms import T, import T as z, from P import N [as z], '
                    'from P import *, from . import N, from ..M import N (every level up to the top package), relative '
                    'star, issued from a script outside sys.path, a script in a root, and modules / __init__.py at every '
                    'depth (the statement is appended to the real text of the file); infer() and '
                    'goto(follow_imports=True) at the use, at the imported name and at the from-part.  Oracle = a child '
                    'interpreter that executes the statement in the really imported importing module and describes the '
                    'bound object (module __file__, namespace __path__, function code location, location carried by a '
                    'class/string); ModuleNotFoundError of the queried module -> no module result; other ImportErrors '
                    'carry no expectation.  No expectation either where only the history of the process decides: a '
                    'package attribute and a same-named sub-module of it both bound during the run, sub-modules that a '
                    'star import copies although no code binds them, statements that rebind a name of the importing '
                    'file or import from the importing file itself.  Discrepancies that are decided by the order of two '
                    'bindings of one name inside a file of the tree (star import after an explicit binding, nested star '
                    'imports, from . import name after a binding of name, star-imported name vs sub-module of the same '
                    'name, circular re-exports) are reported under the same labels with a suffix in square brackets.  Dotted name: every file that the interpreter loads '
                    'under the name its path spells must get that name from jedi (full_name of a probe definition).  '
                    'C: %d seeded random projects for star import programs: 1-2 roots, 2-4 units (regular packages with '
                    'nested sub-packages up to dotted depth 4, a namespace package split over the roots, top-level '
                    'modules) generated in a topological order of their imports; modules, sub-packages and top-level '
                    'modules share the last name components %r across packages; every file binds project-unique names '
                    '(functions, classes, strings, aliases of modules / imported names, from . import x7) and star-imports '
                    '(absolutely or relatively) up to 3 earlier files, giving chains and diamonds of star imports; per '
                    'project <= %d programs of 1-3 import statements (from T import * [absolute / relative], from T '
                    'import N [as z] for names T has itself or only through its star imports, import T as z + z.N for '
                    'top-level T, from P import uniquely named sub-module [as z]) appended to a script outside sys.path, a script in a root or a module / '
                    '__init__.py of the tree (which then only imports earlier files); infer() and '
                    'goto(follow_imports=True) at a use of a name bound by the program or of another name of the project; '
                    'oracle = the child interpreter running the program in the really imported module (cross-checked '
                    'against the binding the generator computed); a name that nothing binds must resolve to nothing.  No '
                    'expectation where only the history of the process decides (a sub-module that is an attribute of '
                    'its package only because something imported it before; therefore modules with a shared last name '
                    'are only named in from-parts, never looked up as attributes of a package) and none for the known '
                    'finding [circular re-export of the name] (a package __init__ never imports the name of one of its '
                    'own sub-modules from another module).'
                    % (n_generated, POOL, N_QUERIES.get(tier, N_QUERIES['quick']),
                       n_star, C_LEAVES, N_STAR_QUERIES.get(tier, N_STAR_QUERIES['quick'])),
            'samples': samples, 'violations': reported,
            'violation_counts': counts, 'statement_outcomes': stats, 'star_program_outcomes': star_stats}
