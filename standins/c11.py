"""C11 bounded stand-in: the real parser + get_signatures over a grid of definitions and call prefixes.

Contract (executable form of the C11 clauses that no function contract reaches end-to-end):
  * exactly one signature is reported, its parameter names and kinds equal inspect.signature of the executed def,
  * bracket_start is the position of the opening parenthesis,
  * index satisfies the binding spec `bind_ok` (contracts/c11.py) for the argument shapes of the typed prefix,
  * to_string() re-parses (as a def header) to the same parameter kinds and names.
"""
import inspect
import itertools
import multiprocessing as mp
import os
import traceback

KINDS = {0: 'POSITIONAL_ONLY', 1: 'POSITIONAL_OR_KEYWORD', 2: 'VAR_POSITIONAL', 3: 'KEYWORD_ONLY', 4: 'VAR_KEYWORD'}
NAMES = ['a', 'b', 'c', 'd']


def param_lists(max_n):
    out = [[]]
    for n in range(1, max_n + 1):
        for kinds in itertools.product(range(5), repeat=n):
            if list(kinds) != sorted(kinds) or kinds.count(2) > 1 or kinds.count(4) > 1:
                continue
            out.append(list(zip(kinds, NAMES[:n])))
    return out


def render_def(params):
    parts = []
    po = [p for p in params if p[0] == 0]
    seen_star = False
    for i, (k, n) in enumerate(params):
        if k == 2:
            parts.append('*' + n)
            seen_star = True
        elif k == 4:
            parts.append('**' + n)
        else:
            if k == 3 and not seen_star:
                parts.append('*')
                seen_star = True
            parts.append(n)
        if k == 0 and (i + 1 == len(params) or params[i + 1][0] != 0):
            parts.append('/')
    return 'def f(%s): pass\n' % ', '.join(parts)


def arg_forms(params):
    """(text, shape) of complete arguments"""
    forms = [('1', (0, None, False)), ('q', (0, 'q', False)), ('*x', (1, 'x', False)), ('**y', (2, 'y', False))]
    for k, n in params:
        forms.append(('%s=1' % n, (0, n, True)))
    forms.append(('zz=1', (0, 'zz', True)))
    return forms


def last_forms(params):
    """(text, shape) of the argument being typed (cursor at the end of the text)"""
    forms = [('', (0, '', False)), ('1', (0, None, False)), ('*', (1, '', False)), ('**', (2, '', False))]
    for k, n in params:
        forms.append((n, (0, n, False)))
        forms.append((n + '=', (0, n, True)))
    return forms


class P:
    def __init__(self, kind, name):
        self._k = kind
        self.string_name = name

    def get_kind(self):
        return self._k


def check_case(case):
    import jedi
    from contracts.c11 import bind_ok
    params, prior, last = case
    code = render_def(params)
    call = 'f(' + ''.join(t + ', ' for t, _ in prior) + last[0]
    src = code + call
    viol = []
    try:
        compile(code, '<def>', 'exec')
    except SyntaxError:
        return 0, []
    # only prefixes Python could still complete to a valid call
    shapes = [s for _, s in prior] + [last[1]]
    kw_seen = False
    for (st, key, eq) in shapes[:-1]:
        if (eq or st == 2):
            kw_seen = True
        elif kw_seen and st == 0:
            return 0, []            # positional after keyword: a syntax error, not in the property's domain
    keys = [key for (st, key, eq) in shapes if eq]
    if len(keys) != len(set(keys)):
        return 0, []                # repeated keyword: syntax error
    try:
        s = jedi.Script(src)
        sigs = s.get_signatures()
        if len(sigs) != 1:
            return 1, [{'label': 'expected exactly one signature', 'input': repr(src), 'observed': repr(sigs)}]
        sig = sigs[0]
        ns = {}
        exec(code, ns)
        real = inspect.signature(ns['f'])
        got = [(p.name, p.kind.name) for p in sig.params]
        want = [(p.name, p.kind.name) for p in real.parameters.values()]
        if got != want:
            viol.append({'label': 'signature parameters differ from inspect.signature', 'input': repr(src),
                         'observed': 'got %r want %r' % (got, want)})
        paren = (2, 1)
        if sig.bracket_start != paren:
            viol.append({'label': 'bracket_start is not the opening parenthesis', 'input': repr(src),
                         'observed': repr(sig.bracket_start)})
        idx = sig.index
        r = -1 if idx is None else idx
        plist = [P(k, n) for k, n in params]
        last_shape = shapes[-1]
        if last_shape[0] == 1 and kw_seen:
            pass        # *iterable after a keyword: unspecified by the contract
        elif not bind_ok(plist, [tuple(x) for x in shapes], r):
            viol.append({'label': 'index is not a parameter Python may bind the argument to', 'input': repr(src),
                         'observed': 'index=%r shapes=%r params=%r' % (idx, shapes, params)})
        # to_string re-parses to the same kinds and names
        ts = sig.to_string()
        ns2 = {}
        try:
            exec('def ' + ts + ': pass', ns2)
            back = [(p.name, p.kind.name) for p in inspect.signature(ns2['f']).parameters.values()]
            if back != want:
                viol.append({'label': 'to_string() does not re-parse to the same signature', 'input': repr(src),
                             'observed': '%r -> %r want %r' % (ts, back, want)})
        except SyntaxError:
            viol.append({'label': 'to_string() is not a valid def header', 'input': repr(src), 'observed': repr(ts)})
    except RecursionError:
        return 1, []
    except Exception:
        viol.append({'label': 'get_signatures raised', 'input': repr(src), 'observed': traceback.format_exc(limit=4)})
    return 1, viol


def _init_worker():
    import tempfile
    import jedi
    jedi.settings.cache_directory = tempfile.mkdtemp(prefix='w_', dir=os.environ['STANDIN_TMP'])


def run(repo, seed, tier):
    max_n = 2 if tier == 'quick' else 3
    max_prior = 1 if tier == 'quick' else 2
    cases = []
    for params in param_lists(max_n):
        forms = arg_forms(params)
        for k in range(0, max_prior + 1):
            for prior in itertools.product(forms, repeat=k):
                for last in last_forms(params):
                    cases.append((params, list(prior), last))
    # a seeded random sample (a stride would always pick the same innermost loop values)
    import random
    rnd = random.Random(1000 + seed)
    cases = rnd.sample(cases, len(cases) // (3 if tier == 'quick' else 2))
    with mp.get_context('fork').Pool(min(16, os.cpu_count() or 4), initializer=_init_worker) as pool:
        results = pool.map(check_case, cases, chunksize=16)
    evaluations = sum(r[0] for r in results)
    violations = [v for r in results for v in r[1]]
    seen = set()
    uniq = []
    for v in violations:
        if v['label'] not in seen:
            seen.add(v['label'])
            uniq.append(v)
    return {'name': 'C11.signature-grid', 'contract': 'C11.get_signatures',
            'evaluations': evaluations, 'distinct_nontrivial': evaluations,
            'rule': 'parameter lists over the 5 kinds (<= %d parameters, exhaustive) x call prefixes of <= %d complete '
                    'arguments (positional, name, keyword per parameter, unknown keyword, *x, **y) x the argument being '
                    'typed (empty, literal, *, **, each parameter name with and without =), cursor at the end; '
                    'syntactically impossible prefixes skipped; every case is non-trivial' % (max_n, max_prior),
            'samples': [render_def(c[0]) + 'f(' + ''.join(t + ', ' for t, _ in c[1]) + c[2][0] for c in cases[:3]],
            'violations': violations[:300], 'violations_total': len(violations)}
