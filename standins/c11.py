"""C11 bounded stand-in: the real parser + get_signatures/infer/goto/help over generated definitions and call sites.

Part 1 (the original grid, unchanged): plain `def f(...)` over the 5 parameter kinds x short call prefixes, index
judged by the binding spec `bind_ok` of contracts/c11.py.

Part 2 (wide scenarios): every enumerated parameter-kind list (<= 6 parameters) is rendered as a definition in a
randomly drawn *style* (function, async function, alias, redefinition, conditional definition, lambda, method via
instance / variable / class, classmethod, staticmethod, class __init__, inherited __init__ / method, __call__, identity
decorator, functools.wraps-style wrappers, pure **kwargs pass-through wrappers - plain, with an extra / a given / a
shadowing parameter, class __init__ and method forwarding - and, where the environment lets jedi unpack *args, the
*args variants), with defaults and annotations (single- and multi-line source text, strings with significant white
space, comments), several layouts of the header, a return annotation and a docstring form.
Call sites: prefixes of <= 5 positional / keyword / starred arguments with rich argument texts (nested calls, brackets,
lambdas, strings with commas and parentheses), the argument under the cursor in every state of being typed (nothing,
complete or still open expression, identifier prefix, `name=`, `name=value`, `*`, `**`), several separators and
parentheses, statement contexts (nested in other calls, brackets, blocks, compound statement headers, decorators),
text after the cursor, and closed calls with the cursor in every slot.

Oracles (never jedi's own output):
  * parameters (names, kinds, defaults, annotations, order), return annotation: inspect.signature of the executed
    object; for pass-through wrappers the signature of the wrapped callable transformed by what the wrapper can
    forward, which is itself validated against real calls (exactly the calls that bind run without TypeError) - a
    failure there is a harness error and is raised,
  * to_string() / ParamName.to_string(): re-executed as a def header in the namespace of the definition and compared
    with Signature.params and with the same inspect.Signature (values of defaults and annotations),
  * bracket_start: the offset of the parenthesis in the generated text,
  * index: the typed argument list is really evaluated by Python (compile + eval) in a call of a function that has
    the reference parameters (all optional) with a sentinel in the slot under the cursor; an unknown *iterable is
    instantiated with every length; an argument that is still ambiguous (nothing typed, a bare identifier, `*`, `**`)
    may select any parameter some completion would bind, except that an empty slot that can be filled positionally
    must select the positional parameter; None exactly when no completion binds,
  * docstring(raw=True): inspect.getdoc of the executed object; docstring(): the signature line(s) + blank line + text,
  * two scripts for the same path in a row: the second answer must describe the second source.

Violations carry a `kind` (family of input) next to the label; at most 3 per (label, kind) are listed.
"""
import inspect
import itertools
import keyword
import multiprocessing as mp
import os
import random
import sys
import traceback
import types

KINDS = {0: 'POSITIONAL_ONLY', 1: 'POSITIONAL_OR_KEYWORD', 2: 'VAR_POSITIONAL', 3: 'KEYWORD_ONLY', 4: 'VAR_KEYWORD'}
NAMES = ['a', 'b', 'c', 'd']


# =====================================================================================================================
# Part 1: the original grid (kept as it was: known findings are keyed on its labels and input format)
# =====================================================================================================================

def param_lists(max_n):
    out = [[]]
    for n in range(1, max_n + 1):
        for kinds in itertools.product(range(5), repeat=n):
            if list(kinds) != sorted(kinds) or kinds.count(2) > 1 or kinds.count(4) > 1:
                continue
            out.append(list(zip(kinds, NAMES[:n])))
    return out


def render_def(params):
    parts = []
    seen_star = False
    for i, (k, n) in enumerate(params):
        if k == 2:
            parts.append('*' + n)
            seen_star = True
        elif k == 4:
            parts.append('**' + n)
        else:
            if k == 3 and not seen_star:
                parts.append('*')
                seen_star = True
            parts.append(n)
        if k == 0 and (i + 1 == len(params) or params[i + 1][0] != 0):
            parts.append('/')
    return 'def f(%s): pass\n' % ', '.join(parts)


def arg_forms(params):
    """(text, shape) of complete arguments"""
    forms = [('1', (0, None, False)), ('q', (0, 'q', False)), ('*x', (1, 'x', False)), ('**y', (2, 'y', False))]
    for k, n in params:
        forms.append(('%s=1' % n, (0, n, True)))
    forms.append(('zz=1', (0, 'zz', True)))
    return forms


def last_forms(params):
    """(text, shape) of the argument being typed (cursor at the end of the text)"""
    forms = [('', (0, '', False)), ('1', (0, None, False)), ('*', (1, '', False)), ('**', (2, '', False))]
    for k, n in params:
        forms.append((n, (0, n, False)))
        forms.append((n + '=', (0, n, True)))
    return forms


class P:
    def __init__(self, kind, name):
        self._k = kind
        self.string_name = name

    def get_kind(self):
        return self._k


def check_case(case):
    import jedi
    from contracts.c11 import bind_ok
    params, prior, last = case
    code = render_def(params)
    call = 'f(' + ''.join(t + ', ' for t, _ in prior) + last[0]
    src = code + call
    viol = []
    try:
        compile(code, '<def>', 'exec')
    except SyntaxError:
        return 0, []
    # only prefixes Python could still complete to a valid call
    shapes = [s for _, s in prior] + [last[1]]
    kw_seen = False
    for (st, key, eq) in shapes[:-1]:
        if (eq or st == 2):
            kw_seen = True
        elif kw_seen and st == 0:
            return 0, []            # positional after keyword: a syntax error, not in the property's domain
    keys = [key for (st, key, eq) in shapes if eq]
    if len(keys) != len(set(keys)):
        return 0, []                # repeated keyword: syntax error
    try:
        s = jedi.Script(src)
        sigs = s.get_signatures()
        if len(sigs) != 1:
            return 1, [{'label': 'expected exactly one signature', 'input': repr(src), 'observed': repr(sigs),
                        'kind': 'grid'}]
        sig = sigs[0]
        ns = {}
        exec(code, ns)
        real = inspect.signature(ns['f'])
        got = [(p.name, p.kind.name) for p in sig.params]
        want = [(p.name, p.kind.name) for p in real.parameters.values()]
        if got != want:
            viol.append({'label': 'signature parameters differ from inspect.signature', 'input': repr(src),
                         'observed': 'got %r want %r' % (got, want)})
        paren = (2, 1)
        if sig.bracket_start != paren:
            viol.append({'label': 'bracket_start is not the opening parenthesis', 'input': repr(src),
                         'observed': repr(sig.bracket_start)})
        idx = sig.index
        r = -1 if idx is None else idx
        plist = [P(k, n) for k, n in params]
        last_shape = shapes[-1]
        if last_shape[0] == 1 and kw_seen:
            pass        # *iterable after a keyword: unspecified by the contract
        elif not bind_ok(plist, [tuple(x) for x in shapes], r):
            viol.append({'label': 'index is not a parameter Python may bind the argument to', 'input': repr(src),
                         'observed': 'index=%r shapes=%r params=%r' % (idx, shapes, params)})
        # to_string re-parses to the same kinds and names
        ts = sig.to_string()
        ns2 = {}
        try:
            exec('def ' + ts + ': pass', ns2)
            back = [(p.name, p.kind.name) for p in inspect.signature(ns2['f']).parameters.values()]
            if back != want:
                viol.append({'label': 'to_string() does not re-parse to the same signature', 'input': repr(src),
                             'observed': '%r -> %r want %r' % (ts, back, want)})
        except SyntaxError:
            viol.append({'label': 'to_string() is not a valid def header', 'input': repr(src), 'observed': repr(ts)})
    except RecursionError:
        return 1, []
    except Exception:
        viol.append({'label': 'get_signatures raised', 'input': repr(src), 'observed': traceback.format_exc(limit=4)})
    for v in viol:
        v['kind'] = 'grid'
    return 1, viol


def _init_worker():
    import tempfile
    import jedi
    jedi.settings.cache_directory = tempfile.mkdtemp(prefix='w_', dir=os.environ['STANDIN_TMP'])


# =====================================================================================================================
# Part 2: wide scenarios
# =====================================================================================================================

L_ONE = 'expected exactly one signature'
L_PARAMS = 'signature parameters differ from inspect.signature'
L_BRACKET = 'bracket_start is not the opening parenthesis'
L_TS = 'to_string() does not re-parse to the same signature'
L_TS_SYNTAX = 'to_string() is not a valid def header'
L_RAISED = 'get_signatures raised'
# new clauses
L_INDEX = 'index differs from the parameter Python binds the argument to'
L_TS_VALUES = 'to_string() re-parses to different defaults or annotations'
L_RETURN = 'return annotation differs from inspect.signature'
L_PARAM_TS = 'ParamName.to_string() differs from the parameter of the definition'
L_OUTER = 'enclosing call is not the innermost call whose parentheses contain the cursor'
L_DOC_RAW = 'docstring(raw=True) differs from inspect.getdoc'
L_DOC_FULL = 'docstring() is not the signature line(s) followed by the inspect.getdoc text'
L_DOC_ONE = 'expected exactly one definition'
L_DOC_RAISED = 'docstring query raised'
L_STALE = 'signature of an earlier source of the same path is reported'

PRE = ('class K:\n'
       '    attr = 3\n'
       'CONST = 7\n'
       'def h(h0=0, h1=1, h2=2, *ha, **hk):\n'
       '    return h0\n')

NAME_POOLS = [
    (3, ['a', 'b', 'c', 'd', 'e', 'j']),           # (f, g, h, q, w, ... are names of the generated modules)
    (2, ['alpha', 'beta', 'gamma', 'delta', 'eps', 'zeta']),
    (3, ['p1', 'p12', 'p123', 'r', 'r_', 'rr']),          # names that are prefixes of each other
    (2, ['_a', 'b_', '_c_', 'd1', 'E', 'j']),
    (1, ['arg', 'args', 'kw', 'kwargs', 'k', 'v']),
    (1, ['__p', '_q', 'r', '__s', 't', 'u2']),             # a leading double underscore is an ordinary name in source
]

DEFAULTS_1 = ['1', 'None', "'s'", '-1', '1.5', '()', '[]', '{}', '(1, 2)', "'a b'", '"q\'t"', 'CONST', 'K', "'x  y'",
              "'t\\tb'", 'CONST + 1', "{'k': [1, 2]}", 'True', "b'b'", '2**3', "'#no'", '"a" "b"', '(3)', 'not CONST',
              "'''tri'''", 'K.attr', 'h(1)', "' lead'", '"trail  "', '[1,2]', 'CONST  if  K  else  0']
DEFAULTS_N = ['(1,\n        2)', "('p'\n        '   r')", "'''tri\n  ple'''", '(1 |  # bits\n        2)',
              "{'k': '    ',\n        'r': '\\t'}", '[\n        1,\n        2,\n    ]', '(CONST +\n        1)',
              '"""a\n\n\tb"""', "('u'   'v',\n        )", "('x'  # why\n         'y')"]
ANNOTS_1 = ['int', 'str', "'K'", 'K', '"a  b"', 'CONST', 'list[int]', '(int, str)', "'list[K]'",
            'K.attr', '1', "'t\\tb'"]
ANNOTS_N = ["(int,\n        'two  words')", 'list[\n        int]', "('lead'  # why\n        )"]
RETURNS = [None, None, None, 'int', "'K'", 'None', 'K', 'list[int]', '(int,\n        str)', '"a  b"']

DOCS = [
    (4, 'none', None),
    (4, 'one', '"""One line."""'),
    (2, 'single', "'single quoted'"),
    (4, 'multi', '"""Summary.\n\n{i}    indented\n{i}      more\n{i}back\n{i}"""'),
    (2, 'trailing', '"""Frob.  """'),
    (2, 'closing-indent', "'''Make.\n{i}   '''"),
    (2, 'lead-nl', '"""\n{i}Lead.\n{i}"""'),
    (1, 'raw', 'r"""raw \\n \\d"""'),
    (1, 'upper-raw', 'R"x\\y"'),
    (1, 'u', 'u"uni"'),
    (1, 'escapes', '"t\\tb\\\\n\\x41"'),
    (1, 'unicode', '"""\u00fcn\u00ef \u20ac"""'),
    (1, 'tabs', '"""tab\n\tq\n\t  r\n\t"""'),
    (1, 'after-comment', '# c\n{i}"after comment"'),
    (1, 'semicolon', '"doc"; zq = 1'),
    (1, 'not-first', 'zq = 1\n{i}"not doc"'),
    (1, 'fstring', 'f"fs"'),
    (1, 'percent', '"%s" % 1'),
    (1, 'method-call', '"a".lower()'),
    (0.3, 'concat', '"a" "b"'),
    (0.3, 'concat-nl', '"a" \\\n{i}"b"'),
    (0.3, 'paren', '("paren")'),
    (0.3, 'bytes', 'b"bytes"'),
    (1, 'dedent-mixed', '"""First\n{i}  two\n{i}    four\n{i}"""'),
    (1, 'blank-lines', '"""\n\n{i}X\n\n\n{i}"""'),
    (1, 'only-ws', '"""   """'),
    (1, 'empty', '""'),
    (1, 'trailing-lines', '"""Doc\n{i}end   \n\n{i}"""'),
    (1, 'quote-inside', '"""He said "hi"."""'),
    (1, 'continuation', '"""a\\\n{i}b"""'),
    (1, 'less-indented', '"""Top\n{i}    deep\n  shallow\n{i}"""'),
]

STYLES = [
    (6, 'func'), (1, 'async'), (1, 'alias'), (1, 'redefined'), (1, 'conditional'), (1, 'lambda'),
    (4, 'method'), (2, 'method_var'), (2, 'method_unbound'), (2, 'classmethod'), (1, 'classmethod_inst'),
    (2, 'staticmethod'), (1, 'staticmethod_inst'), (4, 'init'), (2, 'init_inherited'), (2, 'method_inherited'),
    (1, 'call'), (1, 'ident_deco'),
    (3, 'wraps_kw'), (2, 'wraps_both'), (2, 'wraps_method_kw'),
    (3, 'wrapper_kw'), (1, 'wrapper_both'), (1, 'wrapper_args'), (1, 'wrapper_extra'), (1, 'wrapper_given'),
    (1, 'wrapper_shadow'),
    (2, 'init_wrapper_kw'), (1, 'method_wrapper_kw'),
]
NEEDS_ARGS_UNPACK = {'wraps_both', 'wrapper_both', 'wrapper_args'}
KW_ONLY_FORWARD = {'wraps_kw', 'wraps_method_kw', 'wrapper_kw', 'wrapper_extra', 'wrapper_given', 'wrapper_shadow',
                   'init_wrapper_kw', 'method_wrapper_kw'}

POS_TEXTS = ['1', '1', 'q', "'s'", '(1, 2)', '[1, 2]', '{1: 2, 3: 4}', 'h(1, 2)', 'h(h(1), k=2)', 'q.r', 'q[1, 2]',
             'lambda u, v=2: u', '1 if q else 2', '"a, b"', '"h(k="', '-1', 'not q', 'q == 1', '[i for i in q]',
             'h(1)(2)', '0', '(w := 1)', 'q.r(s=1).t', '{1, 2}', '()', '...', "')'", '"("', 'q.r[h(1):2]']
VAL_TEXTS = ['1', '1', 'q', '(1, 2)', 'h(1, k=2)', '"=,"', 'lambda: 0', 'q == 1', '[1, 2]', '-1', 'q.r', "{'k': 1}",
             'h(h0=1)']
STAR_TEXTS = ['*xs', '*xs', '*xs.r', '*h(1)']
DSTAR_TEXTS = ['**ys', '**ys', '**ys.r', '**h(k=1)']
# what may be typed so far of a positional expression (the slot under the cursor); none is a bare identifier
# (no None/True among the argument values: inferring them needs the builtins stub of typeshed, which this sandbox lacks)
LIT_DONE = ['1', '"s"', "'a, b'", '(2, 3)', 'h(2)', 'h(2)[0]', '0', '-1', 'q.r', '[2]', 'h(2, k=3)', 'q[0]', '1.5']
LIT_OPEN = ['{3: ', 'q.', 'q[', '-', '2 + ', 'not ', 'lambda u: ', '2 if ', 'h(2).', '[i for i in ', '(', '[', '{',
            'q if w else ', 'h(2)[', '(2 + ', '[-']
# ... with a comma inside the still open bracket
LIT_OPEN_COMMA = ['(2, ', '[2, ', '(2, (3, ', '{3: 4, ', '[2, {3: ', 'q[1, ', 'lambda u, v: (']
SEPS = [', ', ', ', ', ', ',', ',\n    ', ' , ', ',  # c\n    ', ',\n', ',\n\n        ']
OPENS = ['(', '(', '(', '( ', '(\n    ', ' (', '(  # c\n    ']
TRAILS_ANY = ['', '', '', '', ')', '\n', ' ', '\nzq = 1\n', '\n\ndef later(u):\n    return u\n', ')\nzq = 1\n',
              ', zz2=1)', ')  # done\n', '\n\n\nclass Later:\n    pass\n', '\n    zq = 1\n']
TRAILS_OPEN = ['', '', '\n', '\nzq = 1\n']
# (text before the callee, text that closes the context again)
CONTEXTS = [('', ''), ('', ''), ('', ''), ('zr = ', ''), ('h(0, ', ')'), ('h(k=', ')'), ('[', ']'), ('(', ')'),
            ('{1: ', '}'), ('zr = [1, ', ']'), ('not ', ''), ('zr = 1 + ', ''), ('assert ', ''), ('lambda: ', ''),
            ('zr = zs = ', ''), ('zr: int = ', ''), ('zr += ', ''), ('h(0)(', ')'), ('print(h(', '))'), ('zr = -', ''),
            ('if ', ':\n{b}    pass'), ('while ', ':\n{b}    pass'), ('for i in ', ':\n{b}    pass'),
            ('with ', ' as zw:\n{b}    pass'), ('raise ', ''), ('zr = q if ', ' else 0'),
            ('zr = (1,\n      ', ')'), ('h(0, h(1, ', '))'), ('zr = q.r(s=', ')'), ('zr = [i for i in ', ']'),
            ('zr = {h(1): ', '}'), ('@', '\n{b}def decorated(): pass')]
BLOCKS = ['', '', '', '', 'if True:\n    ', 'def body(u):\n    ', 'class Z:\n    ', 'try:\n    ', 'for i in q:\n    ',
          'def body(u):\n    if u:\n        ', 'with q:\n    ', 'if q:\n    pass\nelse:\n    ',
          'async def body(u):\n    ', 'while True:\n    ', 'class Z:\n    def zm(self):\n        ']
BLOCK_CLOSE = {'try:\n    ': 'finally:\n    pass\n'}

PO, POK, VP, KWO, VK = (inspect.Parameter.POSITIONAL_ONLY, inspect.Parameter.POSITIONAL_OR_KEYWORD,
                        inspect.Parameter.VAR_POSITIONAL, inspect.Parameter.KEYWORD_ONLY,
                        inspect.Parameter.VAR_KEYWORD)
KIND_OF = {0: PO, 1: POK, 2: VP, 3: KWO, 4: VK}


def wchoice(rnd, weighted):
    total = sum(w[0] for w in weighted)
    r = rnd.random() * total
    for w in weighted:
        r -= w[0]
        if r < 0:
            return w[1:] if len(w) > 2 else w[1]
    return weighted[-1][1:] if len(weighted[-1]) > 2 else weighted[-1][1]


def kind_lists(max_n):
    out = [()]
    for n in range(1, max_n + 1):
        for kinds in itertools.product(range(5), repeat=n):
            if list(kinds) == sorted(kinds) and kinds.count(2) <= 1 and kinds.count(4) <= 1:
                out.append(kinds)
    return out


# ---------------------------------------------------------------------------------------------------------------------
# definitions
# ---------------------------------------------------------------------------------------------------------------------

def gen_params(rnd, kinds, names, rich, po_needs_default, annotations=True):
    """[(kind, name, default source or None, annotation source or None)]"""
    params = []
    need_default = po_needs_default and any(k == 0 for k in kinds)
    for k, n in zip(kinds, names):
        d = a = None
        if k in (0, 1):
            if need_default or (rich and rnd.random() < 0.35):
                need_default = True
                d = rnd.choice(DEFAULTS_N) if rich and rnd.random() < 0.3 else rnd.choice(DEFAULTS_1)
        elif k == 3 and rich and rnd.random() < 0.5:
            d = rnd.choice(DEFAULTS_N) if rnd.random() < 0.3 else rnd.choice(DEFAULTS_1)
        if rich and annotations and rnd.random() < 0.35:
            a = rnd.choice(ANNOTS_N) if rnd.random() < 0.2 else rnd.choice(ANNOTS_1)
        params.append((k, n, d, a))
    return params


def render_param_items(params, first, eq, colon):
    items = [first] if first else []
    seen_star = False
    for i, (k, n, d, a) in enumerate(params):
        if k == 3 and not seen_star:
            items.append('*')
            seen_star = True
        if k == 2:
            seen_star = True
        t = {2: '*', 4: '**'}.get(k, '') + n
        if a is not None:
            t += colon + a
        if d is not None:
            t += (eq if a is None else ' = ') + d
        items.append(t)
        if k == 0 and (i + 1 == len(params) or params[i + 1][0] != 0):
            items.append('/')
    return items


def render_header_args(rnd, params, first, layout, ind):
    eq = rnd.choice(['=', '=', ' = '])
    colon = rnd.choice([': ', ': ', ':'])
    items = render_param_items(params, first, eq, colon)
    if layout == 'one' or not items:
        return ', '.join(items)
    if layout == 'tight':
        return ','.join(items)
    pad = ind + '        '
    if layout == 'multi':
        return '\n' + pad + (',\n' + pad).join(items) + '\n' + ind
    if layout == 'multi_tc':
        return '\n' + pad + (',\n' + pad).join(items) + ',\n' + ind
    if layout == 'multi_cm':
        return '\n' + pad + (',  # note\n' + pad).join(items) + '  # last\n' + ind
    raise RuntimeError('harness: layout ' + layout)


def render_fn(rnd, name, params, first=None, ind='', doc=None, ret=None, layout='one', is_async=False, decos=()):
    out = ''.join(ind + '@' + d + '\n' for d in decos)
    out += ind + ('async ' if is_async else '') + 'def ' + name + '(' + render_header_args(rnd, params, first, layout,
                                                                                         ind) + ')'
    if ret is not None:
        out += ' -> ' + ret
    out += ':\n'
    bi = ind + '    '
    if doc is not None:
        out += bi + doc.replace('{i}', bi) + '\n'
    out += bi + 'return None\n'
    return out


def build_definition(rnd, kinds, style, rich):
    """the source of a module defining the callee, the expression to call and how its reference signature is obtained"""
    names = list(wchoice(rnd, NAME_POOLS))
    dunder = any(n.startswith('__') for n in names)
    if dunder and style not in ('func', 'method'):
        names = list(NAME_POOLS[0][1])
        dunder = False
    if rnd.random() < 0.3:
        rnd.shuffle(names)
    kw_forward = style in KW_ONLY_FORWARD
    params = gen_params(rnd, kinds, names, rich, po_needs_default=kw_forward, annotations=style != 'lambda')
    if style == 'wrapper_args':
        # keyword-only parameters cannot be reached through *args: they need defaults for the wrapper to be callable
        params = [(k, n, (d if d is not None or k != 3 else '0'), a) for (k, n, d, a) in params]
    layout = wchoice(rnd, [(5, 'one'), (1, 'tight'), (2, 'multi'), (1, 'multi_tc'), (1, 'multi_cm')]) if rich else 'one'
    ret = rnd.choice(RETURNS) if rich and style != 'lambda' else None
    doc_tag, doc = wchoice(rnd, DOCS)
    doc2_tag, doc2 = wchoice(rnd, DOCS)          # a second documented object (class / inner wrapper / base method)
    if style.startswith('wraps_') and rnd.random() < 0.3:
        doc_tag, doc = 'none', None              # functools.wraps copies "no docstring" as well
    D = {'style': style, 'params': params, 'doc_tag': doc_tag, 'doc2_tag': doc2_tag, 'layout': layout,
         'refmode': 'inspect', 'docexpr': None, 'goto_ok': True, 'drop': None, 'defname': None, 'dunder': dunder}
    fn = lambda name, **kw: render_fn(rnd, name, params, doc=doc, ret=ret, layout=layout, **kw)  # noqa: E731
    src = PRE

    def cls(name, body, base=None, cdoc=None):
        head = 'class %s%s:\n' % (name, '(%s)' % base if base else rnd.choice(['', '', '()']))
        if cdoc is not None:
            head += '    ' + cdoc.replace('{i}', '    ') + '\n'
        return head + body

    if style == 'func':
        src += fn('f')
        D.update(callee='f', docexpr='f', defname='f')
    elif style == 'async':
        src += fn('f', is_async=True)
        D.update(callee='f', docexpr='f', defname='f')
    elif style == 'alias':
        src += fn('f') + 'g = f\n'
        D.update(callee='g', docexpr='g', goto_ok=False)
    elif style == 'redefined':
        src += 'def f(old0, old1=0):\n    "old doc"\n    return None\n' + fn('f')
        D.update(callee='f', docexpr='f')
    elif style == 'conditional':
        src += 'if CONST:\n' + fn('f', ind='    ')
        D.update(callee='f', docexpr='f', defname='f')
    elif style == 'lambda':
        items = render_param_items(params, None, '=', ': ')
        src += 'f = lambda %s: None\n' % ', '.join(items)
        D.update(callee='f', docexpr='f', goto_ok=False, doc_tag='none')
    elif style in ('method', 'method_var', 'method_unbound'):
        src += cls('C', '    attr2 = 1\n' + fn('m', first='self', ind='    '), cdoc=doc2)
        if style == 'method_var':
            src += 'c = C()\n'
        callee = {'method': 'C().m', 'method_var': 'c.m', 'method_unbound': 'C.m'}[style]
        D.update(callee=callee, docexpr=callee, defname='m')
    elif style in ('classmethod', 'classmethod_inst', 'staticmethod', 'staticmethod_inst'):
        cm = style.startswith('class')
        src += cls('C', fn('m', first='cls' if cm else None, ind='    ',
                           decos=['classmethod' if cm else 'staticmethod']))
        callee = 'C().m' if style.endswith('_inst') else 'C.m'
        D.update(callee=callee, docexpr=callee, defname='m')
    elif style == 'init':
        src += cls('C', fn('__init__', first='self', ind='    ') + '    def other(self):\n        return 1\n',
                   cdoc=doc2)
        D.update(callee='C', docexpr='C', class_doc=True)
    elif style == 'init_inherited':
        src += cls('B', fn('__init__', first='self', ind='    ')) + cls('C', '    attr2 = 1\n', base='B', cdoc=doc2)
        D.update(callee='C', docexpr='C', class_doc=True)
    elif style == 'method_inherited':
        src += cls('B', fn('m', first='self', ind='    ')) + cls('C', '    attr2 = 1\n', base='B')
        D.update(callee='C().m', docexpr='C().m', defname='m')
    elif style == 'call':
        src += cls('C', fn('__call__', first='self', ind='    '), cdoc=doc2)
        D.update(callee='C()')
    elif style == 'ident_deco':
        src += 'def ident(fn):\n    return fn\n' + fn('f', decos=['ident'])
        D.update(callee='f', docexpr='f', defname='f')
    elif style in ('wraps_kw', 'wraps_both'):
        wargs = '**kwargs' if style == 'wraps_kw' else '*args, **kwargs'
        src += ('import functools\ndef deco(func):\n    @functools.wraps(func)\n    def wrapper(%s):\n' % wargs
                + ('        ' + doc2.replace('{i}', '        ') + '\n' if doc2 is not None else '')
                + '        return func(%s)\n    return wrapper\n' % wargs + fn('f', decos=['deco']))
        D.update(callee='f', docexpr='f', defname='f', refmode='kw' if style == 'wraps_kw' else 'inspect')
    elif style == 'wraps_method_kw':
        src += ('import functools\ndef deco(func):\n    @functools.wraps(func)\n    def wrapper(self, **kwargs):\n'
                + ('        ' + doc2.replace('{i}', '        ') + '\n' if doc2 is not None else '')
                + '        return func(self, **kwargs)\n    return wrapper\n'
                + cls('C', fn('m', first='self', ind='    ', decos=['deco'])))
        callee = rnd.choice(['C().m', 'C().m', 'C.m'])
        D.update(callee=callee, docexpr=callee, defname='m', refmode='kw' if callee == 'C().m' else 'kw_self')
    elif style in ('wrapper_kw', 'wrapper_both', 'wrapper_args', 'wrapper_extra', 'wrapper_given', 'wrapper_shadow'):
        wdoc = ('    ' + doc2.replace('{i}', '    ') + '\n') if doc2 is not None else ''
        src += fn('g')
        given = [n for (k, n, d, a) in params if k in (1, 3)]
        if style == 'wrapper_given' and (not given or 4 in kinds):
            style = D['style'] = 'wrapper_kw'
        shadowed = [n for (k, n, d, a) in params if k in (1, 3) and d is not None and n != 'kwargs']
        if style == 'wrapper_shadow' and not shadowed:
            style = D['style'] = 'wrapper_extra'
        if style == 'wrapper_kw':
            src += 'def f(**kwargs):\n' + wdoc + '    return g(**kwargs)\n'
            D.update(refmode='kw')
        elif style == 'wrapper_both':
            src += 'def f(*args, **kwargs):\n' + wdoc + '    return g(*args, **kwargs)\n'
            D.update(refmode='both')
        elif style == 'wrapper_args':
            src += 'def f(*args):\n' + wdoc + '    return g(*args)\n'
            D.update(refmode='args')
        elif style == 'wrapper_extra':
            src += 'def f(w0, **kwargs):\n' + wdoc + '    return g(**kwargs)\n'
            D.update(refmode='kw_extra')
        elif style == 'wrapper_shadow':
            # the wrapper has a parameter of its own with the name of an (optional) parameter of the wrapped callable
            drop = rnd.choice(shadowed)
            src += 'def f(%s=0, **kwargs):\n' % drop + wdoc + '    return g(**kwargs)\n'
            D.update(refmode='kw_shadow', drop=drop)
        else:
            drop = rnd.choice(given)
            src += 'def f(**kwargs):\n' + wdoc + '    return g(%s=0, **kwargs)\n' % drop
            D.update(refmode='kw', drop=drop)
        D.update(callee='f', docexpr='f', defname='f', doc_tag=doc2_tag, wrapped='g')
    elif style == 'init_wrapper_kw':
        src += fn('g') + cls('C', '    def __init__(self, **options):\n        self.r = g(**options)\n', cdoc=doc2)
        D.update(callee='C', docexpr='C', refmode='kw', wrapped='g', class_doc=True)
    elif style == 'method_wrapper_kw':
        src += cls('C', fn('m0', first='self', ind='    ')
                   + '    def m(self, **kwargs):\n        return self.m0(**kwargs)\n')
        D.update(callee='C().m', docexpr='C().m', defname='m', refmode='kw', wrapped='C().m0', doc_tag='none')
    else:
        raise RuntimeError('harness: style ' + style)
    D['src'] = src
    D['names'] = [p[1] for p in params]
    return D


def exec_definition(src, slot_id):
    """run the source as a real module (inspect.getdoc locates classes through sys.modules)"""
    name = 'c11_standin_mod_%d' % slot_id
    mod = types.ModuleType(name)
    sys.modules[name] = mod
    exec(compile(src, '<c11-definition>', 'exec'), mod.__dict__)
    return name, mod.__dict__


def _kw_transform(sig, extra=(), drop=None):
    ps = list(extra)
    for p in sig.parameters.values():
        if p.name == drop or p.kind in (PO, VP):
            continue
        ps.append(p.replace(kind=KWO) if p.kind == POK else p)
    return sig.replace(parameters=ps)


def _args_transform(sig):
    ps = []
    for p in sig.parameters.values():
        if p.kind in (KWO, VK):
            continue
        ps.append(p.replace(kind=PO) if p.kind == POK else p)
    return sig.replace(parameters=ps)


def _accepts(callable_, args, kwargs):
    try:
        callable_(*args, **kwargs)
    except TypeError:
        return False
    return True


def validate_reference(ref, real, D):
    """exactly the calls that bind against the reference signature must run without TypeError (real execution)"""
    names = list(ref.parameters) + [p[1] for p in D['params']] + ['zz']
    names = list(dict.fromkeys(n for n in names))
    npos = sum(1 for p in ref.parameters.values() if p.kind in (PO, POK))
    subsets = [()]
    for r in (1, 2, 3):
        subsets += list(itertools.combinations(names, r))
    subsets.append(tuple(names[:-1]))
    binds = make_probe(ref, partial=False)
    for n_pos in range(0, npos + 2):
        for keys in subsets:
            args = (0,) * n_pos
            kwargs = dict.fromkeys(keys, 0)
            if _accepts(binds, args, kwargs) != _accepts(real, args, kwargs):
                raise RuntimeError('harness: reference signature %s of %r is not call-equivalent for (*%r, **%r)\n%s'
                                   % (ref, D['callee'], args, kwargs, D['src']))


def reference_signature(D, ns):
    real = eval(D['callee'], ns)
    mode = D['refmode']
    if mode == 'inspect':
        return real, inspect.signature(real)
    if mode == 'kw_self':       # the undecorated-looking function reached through the class: self stays
        base = inspect.signature(real)
        ref = _kw_transform(base.replace(parameters=list(base.parameters.values())[1:]),
                            extra=[inspect.Parameter('self', POK)])
    else:
        base = inspect.signature(eval(D['wrapped'], ns)) if 'wrapped' in D else inspect.signature(real)
        if mode == 'kw':
            ref = _kw_transform(base, drop=D['drop'])
        elif mode == 'kw_extra':
            ref = _kw_transform(base, extra=[inspect.Parameter('w0', POK)])
        elif mode == 'kw_shadow':
            ref = _kw_transform(base, extra=[inspect.Parameter(D['drop'], POK, default=0)], drop=D['drop'])
        elif mode == 'both':
            ref = base
        elif mode == 'args':
            ref = _args_transform(base)
        else:
            raise RuntimeError('harness: refmode ' + mode)
    if D['style'] in ('init_wrapper_kw',):
        ref = ref.replace(return_annotation=inspect.Signature.empty)
    validate_reference(ref, real, D)
    return real, ref


# ---------------------------------------------------------------------------------------------------------------------
# the index oracle: Python evaluates the typed argument list
# ---------------------------------------------------------------------------------------------------------------------

class _Sentinel:
    def __repr__(self):
        return '<SENT>'


SENT = _Sentinel()


class _U:
    """a value every generated argument text can be evaluated with"""
    def __init__(self, n=0):
        self._n = n

    def __call__(self, *a, **k):
        return self

    def __getattr__(self, name):
        if name.startswith('__'):
            raise AttributeError(name)
        return self

    def __getitem__(self, key):
        return self

    def __iter__(self):
        return iter((0,) * self._n)

    def keys(self):
        return ()

    def __bool__(self):
        return True

    def __neg__(self):
        return self

    def __add__(self, other):
        return self

    __radd__ = __add__

    def __eq__(self, other):
        return True

    def __hash__(self):
        return 1


_TYPE_ERRORS = ('positional argument', 'multiple values for', 'unexpected keyword argument', 'positional-only')
_MISSING = _Sentinel()


def make_probe(ref, partial=True):
    """a real function with the parameters of the reference signature (all optional when partial): calling it is
    Python's own binding of a (partial) argument list (Signature.bind mishandles positional-only names with **kwargs)"""
    plist = list(ref.parameters.values())
    parts = []
    star_seen = False
    for i, p in enumerate(plist):
        if p.kind is KWO and not star_seen:
            parts.append('*')
            star_seen = True
        if p.kind is VP:
            parts.append('*' + p.name)
            star_seen = True
        elif p.kind is VK:
            parts.append('**' + p.name)
        else:
            parts.append(p.name + ('=__MISSING' if partial or p.default is not p.empty else ''))
        if p.kind is PO and (i + 1 == len(plist) or plist[i + 1].kind is not PO):
            parts.append('/')
    ns = {'__MISSING': _MISSING}
    exec('def __probe(%s):\n    return locals()\n' % ', '.join(parts), ns)
    return ns['__probe']


class Binder:
    def __init__(self, ref, extra_names):
        self.ref = ref
        self.plist = list(ref.parameters.values())
        self.extra = list(extra_names)
        self.probe = make_probe(ref)
        self._cache = {}

    def _ns(self, n):
        u = _U(n)
        ns = {'__bind': self.probe, '__S': SENT}
        for name in ['q', 'w', 'xs', 'ys', 'h', 'zz', 'zz2', 'zq', 'K', 'CONST'] + self.extra \
                + [p.name for p in self.plist]:
            ns[name] = u
        return ns

    def bind(self, text, n, extra=None):
        """'syntax' | 'type' | frozenset of the indices of the parameters that received the sentinel"""
        key = (text, n, None if extra is None else repr(extra))
        if key in self._cache:
            return self._cache[key]
        try:
            code = compile('__bind(%s)' % text, '<c11-call>', 'eval')
        except SyntaxError:
            r = 'syntax'
        else:
            ns = self._ns(n)
            if extra:
                ns.update(extra)
            try:
                ba = eval(code, ns)
            except TypeError as e:
                if not any(m in str(e) for m in _TYPE_ERRORS):
                    raise RuntimeError('harness: unexpected TypeError %s for %r' % (e, text))
                r = 'type'
            else:
                found = set()
                for i, p in enumerate(self.plist):
                    v = ba[p.name]
                    if v is SENT:
                        found.add(i)
                    elif p.kind is VP and any(e is SENT for e in v):
                        found.add(i)
                    elif p.kind is VK and any(e is SENT for e in v.values()):
                        found.add(i)
                r = frozenset(found)
        self._cache[key] = r
        return r

    def allowed(self, prior, cur):
        """the set of admissible answers for `index` (None: the answer None), or None when the prefix is outside the
        domain of the property (Python cannot complete it to a call that binds)"""
        has_star = any(t.startswith('*') and not t.startswith('**') for t in prior)
        has_kw = any(self._is_kw(t) for t in prior)
        npos_max = len(self.plist) + 1
        lengths = range(0, npos_max + 1) if has_star else [0]
        ptxt = ', '.join(prior)
        names = [p.name for p in self.plist]
        kind = cur[0]
        if kind == 'star' and has_kw:
            return None             # *iterable after a keyword: left unspecified by the contract (as in part 1)
        res = {'pos': set(), 'kw': set(), 'star': set(), 'dstar': set()}
        possible = set()
        feasible = False
        for n in lengths:
            r = self.bind(ptxt, n)
            if r == 'syntax':
                return None
            if r == 'type':
                continue
            feasible = True

            def interp(tag, text, extra=None):
                rr = self.bind((ptxt + ', ' if ptxt else '') + text, n, extra)
                if rr == 'syntax':
                    return
                possible.add(tag)
                if rr != 'type':
                    res[tag] |= rr

            if kind in ('lit', 'empty', 'ident'):
                interp('pos', '__S')
            if kind == 'kw':
                interp('kw', cur[1] + '=__S')
            if kind == 'ident':
                for nm in names:
                    if nm.startswith(cur[1]):
                        interp('kw', nm + '=__S')
                interp('kw', cur[1] + 'zz_=__S')
            if kind == 'empty':
                for nm in names + ['zz_']:
                    interp('kw', nm + '=__S')
            if kind == 'star' or (kind == 'empty' and not has_kw):
                for m in range(1, npos_max + 1):
                    interp('star', '*__SI', {'__SI': (SENT,) * m})
            if kind in ('dstar', 'empty'):
                for nm in names + ['zz_']:
                    interp('dstar', '**__SD', {'__SD': {nm: SENT}})
        if not feasible or not possible:
            return None
        if kind == 'empty' and res['pos']:
            out = set(res['pos'])
        else:
            out = res['pos'] | res['kw'] | res['star'] | res['dstar']
        return out or {None}

    @staticmethod
    def _is_kw(text):
        if text.startswith('**'):
            return True
        head = text.split('=', 1)[0]
        return '=' in text and head.strip().isidentifier() and not text[len(head):].startswith('==')


# ---------------------------------------------------------------------------------------------------------------------
# call sites
# ---------------------------------------------------------------------------------------------------------------------

def pos_of(code, offset):
    before = code[:offset]
    line = before.count('\n') + 1
    col = offset - (before.rfind('\n') + 1)
    return line, col


def gen_prior(rnd, names, n):
    npos = rnd.randint(0, n)
    prior = []
    for _ in range(npos):
        prior.append(rnd.choice(names) if names and rnd.random() < 0.15 else rnd.choice(POS_TEXTS))
    pool = names + ['zz']
    rnd.shuffle(pool)
    dstar = False
    for _ in range(n - npos):
        r = rnd.random()
        if r < 0.72 and pool:
            eq = rnd.choice(['=', '=', '=', ' = '])
            prior.append(pool.pop() + eq + rnd.choice(VAL_TEXTS))
        elif r < 0.86 and not dstar:
            prior.append(rnd.choice(STAR_TEXTS))
        else:
            prior.append(rnd.choice(DSTAR_TEXTS))
            dstar = True
    used = [t.split('=')[0].strip() for t in prior if Binder._is_kw(t) and not t.startswith('**')]
    return prior, used


def gen_current(rnd, names, used):
    """(kind tag for reports, oracle form, typed text, may text follow the cursor)"""
    free = [n for n in names if n not in used]
    r = rnd.random()
    if r < 0.16:
        return 'empty', ('empty',), '', True
    if r < 0.30:
        return 'literal', ('lit',), rnd.choice(LIT_DONE), True
    if r < 0.38:
        return 'open-expression', ('lit',), rnd.choice(LIT_OPEN), False
    if r < 0.41:
        return 'open-expression-with-comma', ('lit',), rnd.choice(LIT_OPEN_COMMA), False
    if r < 0.56:
        if free and rnd.random() < 0.8:
            n = rnd.choice(free)
            pre = n[:rnd.randint(1, len(n))]
            if keyword.iskeyword(pre):
                pre = n             # `del` is not the beginning of an identifier for the tokenizer
        else:
            pre = rnd.choice(['q', 'z', 'zq', 'K', 'w', 'self', 'kwargs'])
        return 'identifier', ('ident', pre), pre, True
    if r < 0.84:
        n = rnd.choice(free) if free and rnd.random() < 0.85 else rnd.choice(['zz', 'zz', 'self', 'kwargs', 'args'])
        if n in used:
            n = 'zz3'
        eq = rnd.choice(['=', '=', '=', ' = ', ' ='])
        rr = rnd.random()
        if rr < 0.5:
            return 'keyword=', ('kw', n), n + eq, True
        if rr < 0.8:
            return 'keyword=value', ('kw', n), n + eq + rnd.choice(LIT_DONE + ['q', 'xs']), True
        if rnd.random() < 0.25:
            return 'keyword=open-expression-with-comma', ('kw', n), n + eq + rnd.choice(LIT_OPEN_COMMA), False
        return 'keyword=open-expression', ('kw', n), n + eq + rnd.choice(LIT_OPEN), False
    if r < 0.92:
        t = rnd.choice(['*', '*', '*xs', '*x', '*xs.r'])
        return 'star', ('star',), t, True
    t = rnd.choice(['**', '**', '**ys', '**y', '**ys.r'])
    return 'double-star', ('dstar',), t, True


def gen_site(rnd, D, closed):
    """statement context around the call: (text before the callee, text after the closing parenthesis, tag)"""
    block = rnd.choice(BLOCKS)
    ctx, close = rnd.choice(CONTEXTS)
    if ctx == '@' and (block.startswith('class') or D['callee'].endswith(')')):
        ctx, close = '', ''
    bind = block.rsplit('\n', 1)[-1] if block else ''
    close = close.replace('{b}', bind)
    tail = BLOCK_CLOSE.get(block, '')
    tag = 'ctx=%r block=%r' % (ctx, block.split('\n')[0])
    return block + ctx, close + '\n' + tail, tag


class Out:
    def __init__(self):
        self.evals = 0
        self.skipped = 0
        self.viol = []
        self.samples = []

    def add(self, label, kind, inp, observed):
        self.viol.append({'label': label, 'kind': kind, 'input': inp, 'observed': observed})


def describe(code, line, col):
    return '%r @(%d, %d)' % (code, line, col)


def sig_facts(sig):
    return {'params': [(p.name, p.kind.name) for p in sig.params], 'index': sig.index,
            'bracket_start': tuple(sig.bracket_start), 'to_string': sig.to_string(),
            'param_strings': [p.to_string() for p in sig.params], 'name': sig.name}


def query_signatures(jedi, out, kind, code, line, col, script=None, path=None):
    """one get_signatures query; returns (script, facts of the single signature or None, the Signature)"""
    out.evals += 1
    try:
        if script is None:
            script = jedi.Script(code, path=path)
        sigs = script.get_signatures(line, col)
        if len(sigs) != 1:
            out.add(L_ONE, kind, describe(code, line, col), repr(sigs))
            return script, None, None
        return script, sig_facts(sigs[0]), sigs[0]
    except Exception as e:
        out.add(L_RAISED, 'raised %s: %s' % (type(e).__name__, str(e)[:60]), describe(code, line, col),
                traceback.format_exc(limit=6))
        return script, None, None


def pkey(p):
    return (p.name, p.kind.name)


def same_value(a, b):
    if a is b:
        return True
    try:
        return type(a) is type(b) and bool(a == b)
    except Exception:
        return False


def check_static(out, kind, inp, facts, ref, ns, check_return):
    """names, kinds, order, defaults, annotations of the reported signature and of its textual forms"""
    want = [pkey(p) for p in ref.parameters.values()]
    if facts['params'] != want:
        out.add(L_PARAMS, kind, inp, 'got %r want %r' % (facts['params'], want))
    ts = facts['to_string']
    head, paren, rest = ts.partition('(')
    ns2 = dict(ns)
    try:
        exec(compile('def __reparsed(' + rest + ':\n    pass\n', '<c11-to_string>', 'exec'), ns2)
    except SyntaxError:
        out.add(L_TS_SYNTAX, kind, inp, repr(ts))
        return
    except RecursionError:
        raise
    except Exception as e:
        out.add(L_TS, kind, inp, '%r cannot be executed as a def header: %s: %s' % (ts, type(e).__name__, e))
        return
    back = inspect.signature(ns2['__reparsed'])
    if [pkey(p) for p in back.parameters.values()] != facts['params']:
        out.add(L_TS, kind, inp, '%r -> %r, Signature.params: %r'
                % (ts, [pkey(p) for p in back.parameters.values()], facts['params']))
    elif facts['params'] == want:
        diffs = []
        for b, r in zip(back.parameters.values(), ref.parameters.values()):
            if not same_value(b.default, r.default):
                diffs.append('default of %s: %r, executed definition: %r' % (r.name, b.default, r.default))
            if not same_value(b.annotation, r.annotation):
                diffs.append('annotation of %s: %r, executed definition: %r' % (r.name, b.annotation, r.annotation))
        if diffs:
            out.add(L_TS_VALUES, kind, inp, '%r: %s' % (ts, '; '.join(diffs)))
        if check_return and not same_value(back.return_annotation, ref.return_annotation):
            out.add(L_RETURN, kind, inp, '%r: return annotation %r, executed definition: %r'
                    % (ts, back.return_annotation, ref.return_annotation))
        # every ParamName.to_string() on its own
        for s, r in zip(facts['param_strings'], ref.parameters.values()):
            ns3 = dict(ns)
            try:
                exec(compile('def __one(' + s + '):\n    pass\n', '<c11-param>', 'exec'), ns3)
                one = list(inspect.signature(ns3['__one']).parameters.values())
                ok = (len(one) == 1 and one[0].name == r.name and same_value(one[0].default, r.default)
                      and same_value(one[0].annotation, r.annotation)
                      and (one[0].kind is r.kind or r.kind in (PO, KWO)))
            except RecursionError:
                raise
            except Exception as e:
                ok = False
                one = '%s: %s' % (type(e).__name__, e)
            if not ok:
                out.add(L_PARAM_TS, kind, inp, '%r -> %r, executed definition: %r' % (s, one, r))
                break


def fmt_allowed(allowed, ref):
    names = list(ref.parameters)
    return '{%s}' % ', '.join('None' if a is None else '%d:%s' % (a, names[a])
                              for a in sorted(allowed, key=lambda x: -1 if x is None else x))


def check_index(out, kind, inp, facts, ref, allowed, prior, cur, family):
    idx = facts['index']
    if facts['params'] != [pkey(p) for p in ref.parameters.values()]:
        return          # reported separately; an index into another parameter list cannot be judged
    if idx not in allowed:
        kind = 'index %s expected=%s got=%s' % (kind, 'None' if allowed == {None} else 'parameter',
                                                'None' if idx is None else 'parameter')
        if 'expected=parameter' in kind and 'with-comma' not in kind:
            kind += ' ' + family
        out.add(L_INDEX, kind, inp, 'index=%r, Python binds the argument to %s; arguments before: %r, typed: %r; %s'
                % (idx, fmt_allowed(allowed, ref), prior, cur, facts['to_string']))


def build_open_call(rnd, D, binder, names):
    """a call that is being typed: (code, cursor offset, offset of the parenthesis, prior, cur, allowed, tags)"""
    for _attempt in range(40):
        n = rnd.choice([0, 0, 1, 1, 1, 2, 2, 2, 3, 3, 4, 5])
        prior, used = gen_prior(rnd, list(names), n)
        ctag, cur, text, may_follow = gen_current(rnd, names + ['zz'], used)
        allowed = binder.allowed(prior, cur)
        if allowed is not None:
            break
    else:
        return None
    before, _after, stag = gen_site(rnd, D, closed=False)
    opn = rnd.choice(OPENS)
    if before.endswith('@') and opn.startswith(' '):
        opn = '('
    sep = rnd.choice(SEPS)
    head = D['src'] + before + D['callee']
    paren = len(head) + opn.index('(')
    body = head + opn + ''.join(p + sep for p in prior) + text
    trail = rnd.choice(TRAILS_ANY if may_follow else TRAILS_OPEN)
    complete = ctag in ('literal', 'identifier', 'keyword=value') or (ctag in ('star', 'double-star')
                                                                    and text.strip('*') != '')
    if trail.startswith(',') and not complete:
        trail = ')'
    code = body + trail
    tags = 'style=%s %s cur=%s sep=%r open=%r trail=%r' % (D['style'], stag, ctag, sep, opn, trail)
    return code, len(body), paren, prior, cur, allowed, tags, ctag


def build_closed_call(rnd, D, binder, names):
    """a complete call with the cursor in every slot: code, offset of the parenthesis, [(cursor offset, prior, cur,
    allowed, tag)], offsets for the enclosing h(...) call when there is one"""
    for _attempt in range(40):
        n = rnd.choice([0, 1, 2, 2, 3, 3, 4, 5])
        args, _used = gen_prior(rnd, list(names), n)
        if isinstance(binder.bind(', '.join(args), 0), frozenset):
            break
    else:
        return None
    before, after, stag = gen_site(rnd, D, closed=True)
    opn = rnd.choice(OPENS)
    if before.endswith('@') and opn.startswith(' '):
        opn = '('
    sep = rnd.choice(SEPS)
    head = D['src'] + before + D['callee']
    paren = len(head) + opn.index('(')
    code = head + opn
    slots = []
    if not args:
        slots.append((len(code), [], ('empty',), 'empty'))
    for j, a in enumerate(args):
        start = len(code)
        code += a
        prior = args[:j]
        if a.startswith('**'):
            slots.append((len(code), prior, ('dstar',), 'double-star'))
        elif a.startswith('*'):
            slots.append((len(code), prior, ('star',), 'star'))
        elif Binder._is_kw(a):
            name = a.split('=')[0].strip()
            slots.append((len(code), prior, ('kw', name), 'keyword=value'))
            slots.append((start + a.index('=') + 1, prior, ('kw', name), 'keyword='))
            cut = rnd.randint(1, len(name))
            if not keyword.iskeyword(name[:cut]):
                slots.append((start + cut, prior, ('ident', name[:cut]), 'inside-keyword-name'))
        elif a.isidentifier():
            slots.append((len(code), prior, ('ident', a), 'identifier'))
        else:
            slots.append((len(code), prior, ('lit',), 'literal'))
        if j + 1 < len(args):
            code += sep
    inner_close = len(code)
    code += ')'
    outer = None
    if before.endswith('h(0, '):
        # directly behind the closing parenthesis the cursor is in the second slot of the enclosing h(0, ...)
        outer = (len(code), len(D['src'] + before) - len('(0, '))
    code += after + rnd.choice(['', 'zq = 1\n', '\ndef later(u):\n    return u\n'])
    out = []
    for off, prior, cur, ctag in slots:
        allowed = binder.allowed(prior, cur)
        if allowed is not None:
            out.append((off, prior, cur, allowed, ctag))
    tags = 'style=%s %s sep=%r open=%r closed' % (D['style'], stag, sep, opn)
    return code, paren, out, outer, tags, inner_close


EXOTIC_DOCS = ('concat', 'concat-nl', 'paren', 'bytes')


def doc_kind(D, api):
    """violations caused by an unusual docstring form are grouped by the form, all others by style and API"""
    forms = [t for t in (D['doc_tag'], D['doc2_tag']) if t in EXOTIC_DOCS]
    if forms:
        return 'doc form=%s' % forms[0]
    return 'doc style=%s api=%s' % (D['style'], api)


def expected_doc(real):
    return inspect.getdoc(real) or ''


def check_docstrings(jedi, out, rnd, D, real):
    """docstring(raw=True) / docstring() of the definition reached through infer / goto / help / get_names"""
    if D['docexpr'] is None:
        return
    want = expected_doc(real)
    before, _after, stag = gen_site(rnd, D, closed=False)
    if before.endswith('@'):
        before = before[:-1]
    code = D['src'] + before + D['docexpr']
    trail = rnd.choice(['', '', '\n', '\nzq = 1\n'])
    line, col = pos_of(code, len(code))
    code += trail
    # (goto/help on a variable that holds the callee answer with the assignment, which is not a definition of it)
    apis = ['infer'] + (['help', 'goto'] if D['goto_ok'] else [])
    script = None
    for api in apis:
        kind = doc_kind(D, api)
        inp = '%s via %s [%s doc=%s doc2=%s]' % (describe(code, line, col), api, stag, D['doc_tag'], D['doc2_tag'])
        out.evals += 1
        try:
            if script is None:
                script = jedi.Script(code)
            names = getattr(script, api)(line, col)
            if len(names) != 1:
                out.add(L_DOC_ONE, kind, inp, repr(names))
                continue
            name = names[0]
            raw = name.docstring(raw=True)
            full = name.docstring()
            sigtext = '\n'.join(s.to_string() for s in name.get_signatures())
            ntype = name.type
        except Exception as e:
            out.add(L_DOC_RAISED, 'raised %s: %s' % (type(e).__name__, str(e)[:60]), inp,
                    traceback.format_exc(limit=6))
            continue
        if raw != want:
            out.add(L_DOC_RAW, kind, inp, 'docstring(raw=True) == %r, inspect.getdoc(%s) == %r'
                    % (raw, D['docexpr'], want))
            continue        # (docstring() repeats the wrong text)
        exp_full = sigtext + '\n\n' + want if sigtext and want else sigtext + want
        if ntype not in ('function', 'class'):
            continue        # a variable that holds the callee is not a definition: no signature line is specified
        if full != exp_full:
            out.add(L_DOC_FULL, kind, inp, 'docstring() == %r, expected %r' % (full, exp_full))
    # the name of the def statement itself (the last def of that name is the function behind the callee)
    if D['defname']:
        kind = doc_kind(D, 'get_names')
        out.evals += 1
        try:
            found = [n for n in jedi.Script(D['src']).get_names(all_scopes=True)
                     if n.name == D['defname'] and n.type == 'function']
            docs = [(n.line, n.docstring(raw=True)) for n in found]
        except Exception as e:
            out.add(L_DOC_RAISED, 'raised %s: %s' % (type(e).__name__, str(e)[:60]), repr(D['src']),
                    traceback.format_exc(limit=6))
            return
        if not docs:
            out.add(L_DOC_ONE, kind, repr(D['src']), 'get_names() has no function %r' % D['defname'])
        elif docs[-1][1] != want:
            out.add(L_DOC_RAW, kind, repr(D['src']) + ' via get_names',
                    'docstring(raw=True) of %s at line %d == %r, inspect.getdoc == %r'
                    % (D['defname'], docs[-1][0], docs[-1][1], want))


def check_signature_docstring(out, kind, inp, sig, real, facts):
    want = expected_doc(real)
    try:
        raw = sig.docstring(raw=True)
        full = sig.docstring()
    except Exception as e:
        out.add(L_DOC_RAISED, 'raised %s: %s' % (type(e).__name__, str(e)[:60]), inp, traceback.format_exc(limit=6))
        return
    if raw != want:
        out.add(L_DOC_RAW, kind, inp + ' via Signature',
                'docstring(raw=True) == %r, inspect.getdoc == %r' % (raw, want))
        return
    exp_full = facts['to_string'] + '\n\n' + want if want else facts['to_string']
    if full != exp_full:
        out.add(L_DOC_FULL, kind, inp + ' via Signature', 'docstring() == %r, expected %r' % (full, exp_full))


def check_stale(jedi, out, rnd, D, ref, ns, slot_id):
    """the same path and call text with another definition first"""
    kinds_old = rnd.choice([(1,), (1, 1), (0, 1, 3), (2, 4), (1, 3, 3)])
    old = gen_params(rnd, kinds_old, ['old0', 'old1', 'old2'], False, False)
    lines = D['src'].count('\n')
    old_src = PRE + 'def f(%s):\n    return None\n' % ', '.join(render_param_items(old, None, '=', ': '))
    if D['style'] != 'func' or old_src.count('\n') > lines:
        return
    old_src += '# pad\n' * (lines - old_src.count('\n'))
    call = rnd.choice(['', 'zr = ']) + 'f(' + rnd.choice(['', '1, ', 'zz='])
    path = os.path.join(os.environ['STANDIN_TMP'], 'stale_%d_%d.py' % (os.getpid(), slot_id))
    line, col = pos_of(old_src + call, len(old_src + call))
    kind = 'sequence style=func'
    tmp = Out()
    query_signatures(jedi, tmp, kind, old_src + call, line, col, path=path)
    code = D['src'] + call
    _s, facts, _sig = query_signatures(jedi, out, kind, code, line, col, path=path)
    if facts is None:
        return
    want = [pkey(p) for p in ref.parameters.values()]
    if facts['params'] != want:
        fresh = Out()
        _s, facts2, _sig = query_signatures(jedi, fresh, kind, code, line, col)
        if facts2 is not None and facts2['params'] == want:
            out.add(L_STALE, kind, 'path=stale.py: first %r then %s' % (old_src + call, describe(code, line, col)),
                    'second answer %s, executed definition %s' % (facts['to_string'], ref))


def run_slot(slot):
    """all checks for one definition; deterministic in (seed, slot index)"""
    import jedi
    slot_id, seed, kinds, style, rich, n_open, n_closed, do_doc, do_stale = slot
    rnd = random.Random('c11/%d/%d' % (seed, slot_id))
    out = Out()
    D = build_definition(rnd, kinds, style, rich)
    modname, ns = exec_definition(D['src'], slot_id)
    try:
        real, ref = reference_signature(D, ns)
        names = list(ref.parameters)
        binder = Binder(ref, D['names'])
        # (inspect.signature of a class repeats the return annotation of __init__; a call of a class returns the class)
        check_return = D['refmode'] == 'inspect' and D['style'] not in ('wraps_both', 'init', 'init_inherited')
        static_done = False
        family = 'pass-through' if D['refmode'] != 'inspect' or D['style'] == 'wraps_both' else 'plain'
        skind = 'style=%s%s' % (D['style'], ' names=dunder' if D['dunder'] else '')
        dkind = doc_kind(D, 'get_signatures')
        out.samples.append(D['src'][len(PRE):] + D['callee'] + '(')
        for _ in range(n_open):
            built = build_open_call(rnd, D, binder, names)
            if built is None:
                out.skipped += 1
                continue
            code, cursor, paren, prior, cur, allowed, tags, ctag = built
            line, col = pos_of(code, cursor)
            kind = 'cur=%s' % ctag
            inp = '%s [%s]' % (describe(code, line, col), tags)
            _script, facts, sig = query_signatures(jedi, out, kind, code, line, col)
            if facts is None:
                continue
            if facts['bracket_start'] != pos_of(code, paren):
                out.add(L_BRACKET, kind, inp, '%r, the parenthesis is at %r' % (facts['bracket_start'],
                                                                               pos_of(code, paren)))
            check_index(out, kind, inp, facts, ref, allowed, prior, cur, family)
            if not static_done or rnd.random() < 0.25:
                check_static(out, skind, inp, facts, ref, ns, check_return)
                if not static_done and D['docexpr'] is not None and D['style'] != 'call':
                    out.evals += 1
                    check_signature_docstring(out, dkind, inp, sig, real, facts)
                static_done = True
        for _ in range(n_closed):
            built = build_closed_call(rnd, D, binder, names)
            if built is None:
                out.skipped += 1
                continue
            code, paren, slots, outer, tags, inner_close = built
            script = None
            for off, prior, cur, allowed, ctag in slots:
                line, col = pos_of(code, off)
                kind = 'cur=%s' % ctag
                inp = '%s [%s]' % (describe(code, line, col), tags)
                script, facts, _sig = query_signatures(jedi, out, kind, code, line, col, script=script)
                if facts is None:
                    continue
                if facts['bracket_start'] != pos_of(code, paren):
                    out.add(L_BRACKET, kind, inp, '%r, the parenthesis is at %r' % (facts['bracket_start'],
                                                                                   pos_of(code, paren)))
                check_index(out, kind, inp, facts, ref, allowed, prior, cur, family)
                if not static_done:
                    check_static(out, skind, inp, facts, ref, ns, check_return)
                    static_done = True
            if outer is not None:
                off, hparen = outer
                line, col = pos_of(code, off)
                kind = 'enclosing-call closed'
                inp = '%s [%s]' % (describe(code, line, col), tags)
                script, facts, _sig = query_signatures(jedi, out, kind, code, line, col, script=script)
                if facts is not None:
                    if facts['name'] != 'h' or facts['bracket_start'] != pos_of(code, hparen):
                        out.add(L_OUTER, kind, inp, '%s at %r, expected h at %r'
                                % (facts['to_string'], facts['bracket_start'], pos_of(code, hparen)))
                    elif facts['index'] != 1:
                        out.add(L_INDEX, kind, inp, 'index=%r of %s, Python binds the second positional argument to '
                                '{1:h1}' % (facts['index'], facts['to_string']))
        if do_doc:
            check_docstrings(jedi, out, rnd, D, real)
        if do_stale:
            check_stale(jedi, out, rnd, D, ref, ns, slot_id)
    finally:
        sys.modules.pop(modname, None)
    return out.evals, out.skipped, out.viol, out.samples[:1]


def args_unpack_supported():
    """jedi needs the tuple type of typeshed to unpack *args; without it every *args pass-through raises
    RecursionError on any tree (a property of the environment, not of the tree under test)"""
    import jedi
    src = 'def g(a, b=1):\n    return None\ndef w(*args):\n    return g(*args)\nw('
    try:
        return [[p.name for p in sig.params] for sig in jedi.Script(src).get_signatures()] == [['a', 'b']]
    except Exception:
        return False


def make_slots(seed, tier, unpack_ok):
    rnd = random.Random('c11-slots/%d' % seed)
    styles = [s for s in STYLES if unpack_ok or s[1] not in NEEDS_ARGS_UNPACK]
    all6 = kind_lists(6)
    small = [k for k in all6 if len(k) <= 4]
    big = [k for k in all6 if len(k) > 4]
    if tier == 'quick':
        chosen = [(k, False) for k in small] + [(k, True) for k in small] \
            + [(k, True) for k in rnd.sample(big, 60)] + [(k, False) for k in rnd.sample(big, 30)]
        reps, n_open, n_closed = 4, 3, 1
    else:
        chosen = [(k, False) for k in all6] + [(k, True) for k in all6] + [(k, True) for k in all6]
        reps, n_open, n_closed = 12, 4, 1
    slots = []
    for kinds, rich in chosen:
        for _ in range(reps):
            style = wchoice(rnd, styles)
            if style in KW_ONLY_FORWARD and kinds and all(k in (0, 2) for k in kinds) and rnd.random() < 0.7:
                style = wchoice(rnd, styles)      # nothing would be forwarded; mostly use another style
            slots.append((len(slots), seed, kinds, style, rich, n_open, n_closed,
                          rnd.random() < 0.6, rnd.random() < 0.25))
    return slots


def run(repo, seed, tier):
    max_n = 2 if tier == 'quick' else 3
    max_prior = 1 if tier == 'quick' else 2
    cases = []
    for params in param_lists(max_n):
        forms = arg_forms(params)
        for k in range(0, max_prior + 1):
            for prior in itertools.product(forms, repeat=k):
                for last in last_forms(params):
                    cases.append((params, list(prior), last))
    # a seeded random sample (a stride would always pick the same innermost loop values)
    rnd = random.Random(1000 + seed)
    cases = rnd.sample(cases, len(cases) // (3 if tier == 'quick' else 2))
    with mp.get_context('fork').Pool(min(16, os.cpu_count() or 4), initializer=_init_worker) as pool:
        # (jedi must not be used in this process before the fork: the workers would share its compiled subprocess)
        unpack_ok = pool.apply(args_unpack_supported)
        slots = make_slots(seed, tier, unpack_ok)
        results = pool.map(check_case, cases, chunksize=16)
        wide = pool.map(run_slot, slots, chunksize=4)
    grid_evals = sum(r[0] for r in results)
    violations = [v for r in results for v in r[1]]
    wide_evals = sum(r[0] for r in wide)
    skipped = sum(r[1] for r in wide)
    violations += [v for r in wide for v in r[2]]
    counts = {}
    per_kind = {}
    for v in violations:
        counts[v['label']] = counts.get(v['label'], 0) + 1
        per_kind.setdefault((v['label'], v.get('kind')), []).append(v)
    # at most 3 per (label, kind of input), 60 in all: first one of every kind, then the second ones, ...
    shown = []
    for rank in range(3):
        for key in per_kind:
            if rank < len(per_kind[key]) and len(shown) < 60:
                shown.append(per_kind[key][rank])
    evaluations = grid_evals + wide_evals
    samples = [render_def(c[0]) + 'f(' + ''.join(t + ', ' for t, _ in c[1]) + c[2][0] for c in cases[:2]]
    samples += [s for r in wide[:40:13] for s in r[3]]
    return {'name': 'C11.signature-grid', 'contract': 'C11.get_signatures',
            'evaluations': evaluations, 'distinct_nontrivial': evaluations,
            'rule': 'part 1: parameter lists over the 5 kinds (<= %d parameters, exhaustive) x call prefixes of <= %d '
                    'complete arguments (positional, name, keyword per parameter, unknown keyword, *x, **y) x the '
                    'argument being typed (empty, literal, *, **, each parameter name with and without =), cursor at '
                    'the end, a seeded random sample, index judged by bind_ok of contracts/c11.py (%d evaluations). '
                    'part 2: %d definitions: every kind list with <= %s parameters%s, each bare and with random '
                    'defaults/annotations (single- and multi-line texts)/return annotation/header layout/docstring '
                    'form, in a random style of %d (function, async, alias, redefinition, lambda, method, '
                    'classmethod, staticmethod, __init__, inherited, __call__, identity decorator, functools.wraps '
                    'wrappers, **kwargs%s pass-through wrappers); per definition %d prefixes of <= 5 arguments being '
                    'typed (random argument texts, separators, statement context, text after the cursor) and %d closed '
                    'call(s) with the cursor in every slot, docstrings through infer/help/goto/get_names/'
                    'get_signatures for 60%% of the definitions, a two-script sequence on one path for a quarter of '
                    'the plain functions (%d evaluations, %d generated prefixes outside the domain skipped). Oracles: '
                    'inspect.signature / inspect.getdoc of the executed object, pass-through references validated by '
                    'real calls, index by evaluating the typed arguments with Python against Signature.bind_partial '
                    '(any length for *iterables; an ambiguous argument may select any parameter a completion binds, '
                    'an empty slot that can be filled positionally must select that parameter, None iff nothing '
                    'binds; * after a keyword unspecified), bracket_start by construction.'
                    % (max_n, max_prior, grid_evals, len(slots), '4' if tier == 'quick' else '6',
                       ' plus a random sample of 90 lists with 5-6' if tier == 'quick' else '',
                       len([s for s in STYLES if unpack_ok or s[1] not in NEEDS_ARGS_UNPACK]),
                       ' and *args' if unpack_ok else ' (*args forwarding not evaluable without typeshed: skipped)',
                       slots[0][5], slots[0][6], wide_evals, skipped),
            'samples': samples[:5],
            'violations': shown, 'violations_total': len(violations), 'violation_counts': counts,
            'violation_kinds': {'%s | %s' % k: len(v) for k, v in per_kind.items()}}
