"""C12 bounded stand-in: projects whose every module writes a marker file when its code runs; after every Script query
(answered in this process and in jedi's helper process) no marker exists - analysing sources never executes them.

Oracle from the property statement only: a file appears iff some code of the project was executed (import, exec,
runpy, unpickle, extension load), in any process."""
import os
import py_compile
import shutil
import sys
import tempfile
import random

MARK = '''import os as _o
open(_o.path.join(%r, %r + '.' + str(_o.getpid())), 'w').close()
'''


def build(root, markers, rng):
    files = {}

    def mod(rel, body='value = 1\ndef func(a, b=2):\n    """doc"""\n    return a\nclass Klass:\n    attr = 3\n    def meth(self): return self\n'):
        files[rel] = MARK % (markers, rel.replace('/', '_')) + body
    mod('plain.py')
    mod('gi.py')                       # a name in settings.auto_import_modules
    mod('pkg/__init__.py', 'from . import sub\nfrom .sub import thing\n')
    mod('pkg/sub.py', 'thing = 1\n')
    mod('pkg/gi.py')
    mod('ns/inner.py')
    mod('setup.py', 'from setuptools import setup\nsetup()\n')
    mod('conftest.py')
    mod('sitecustomize.py')
    mod('usercustomize.py')
    mod('stubbed.py')
    files['stubbed.pyi'] = 'def func(a: int) -> int: ...\n'
    mod('__main__.py')
    mod('setuptools/__init__.py', '')       # answered by a third-party sys.meta_path finder for `import distutils`
    mod('dyn.py', '__all__ = [n for n in ("a", "b")]\nimport sys\nsys.path.append(%r)\na = b = 1\n' % root)
    for rel, text in files.items():
        p = os.path.join(root, rel)
        os.makedirs(os.path.dirname(p), exist_ok=True)
        with open(p, 'w') as f:
            f.write(text)
    # a sourceless module and a .pth file in the project directory
    src = os.path.join(root, '_tmp_sourceless.py')
    with open(src, 'w') as f:
        f.write(MARK % (markers, 'sourceless') + 'value = 1\n')
    py_compile.compile(src, cfile=os.path.join(root, 'sourceless.pyc'), doraise=True)
    os.remove(src)
    with open(os.path.join(root, 'hook.pth'), 'w') as f:
        f.write('import plain\n')
    return sorted(files)


BUFFERS = [
    'import plain\nplain.func(\nplain.Klass().meth().attr\nplain.val',
    'import gi\ngi.func(\ngi.Klass.attr\nfrom gi import value\nvalue\nfrom gi import *\nfunc',
    'from . import gi\ngi.func(\nfrom .gi import Klass\nKlass().meth',
    'import pkg\npkg.sub.thing\npkg.thing\nfrom pkg import gi\ngi.value\nimport pkg.gi as g2\ng2.func(',
    'import ns.inner\nns.inner.func(\nimport setup, conftest, sitecustomize, usercustomize\nsetup.value\nconftest.func(',
    'import stubbed\nstubbed.func(\nimport sourceless\nsourceless.value\nimport dyn\ndyn.a\nfrom dyn import *\nb',
    'import distutils\ndistutils.core\nimport setuptools\nsetuptools.x',
    'import __main__\n__main__.value\nimport importlib\nimportlib.import_module("plain").func(\n__import__("plain").value\n'
    'exec("import plain")\neval("plain")\nplain',
]


def run(repo, seed, tier):
    import jedi
    rng = random.Random(seed)
    violations = []
    evaluations = 0
    samples = []
    top = tempfile.mkdtemp(prefix='c12_', dir=os.environ['STANDIN_TMP'])
    try:
        markers = os.path.join(top, 'markers')
        os.makedirs(markers)
        root = os.path.join(top, 'proj')
        os.makedirs(root)
        build(root, markers, rng)
        projects = [('default', jedi.Project(root)),
                    ('explicit sys_path', jedi.Project(root, sys_path=[root, os.path.join(root, 'pkg')])),
                    ('added_sys_path', jedi.Project(root, added_sys_path=[os.path.join(root, 'ns')]))]
        locations = [os.path.join(root, 'main.py'), os.path.join(root, 'pkg', 'user.py'), None]
        for pname, project in projects:
            for loc in locations:
                for code in BUFFERS:
                    if loc is None and code.startswith('from .'):
                        continue
                    lines = code.split('\n')
                    s = jedi.Script(code, path=loc, project=project)
                    positions = [(li, len(l)) for li, l in enumerate(lines, 1) if l] + \
                                [(li, max(l.find('.') + 1, 0)) for li, l in enumerate(lines, 1) if '.' in l]
                    if tier == 'quick':
                        positions = rng.sample(positions, min(len(positions), 6))
                    for (li, col) in positions:
                        for q in ('complete', 'infer', 'goto', 'help', 'get_signatures', 'get_references', 'get_context'):
                            evaluations += 1
                            try:
                                if q == 'goto':
                                    res = s.goto(li, col, follow_imports=True, follow_builtin_imports=True)
                                elif q == 'get_context':
                                    res = [s.get_context(li, col)]
                                else:
                                    res = getattr(s, q)(li, col)
                                for r in list(res)[:4]:
                                    for attr in ('docstring', 'get_signatures', 'defined_names', 'get_type_hint', 'infer'):
                                        try:
                                            getattr(r, attr)()
                                        except Exception:
                                            pass
                            except Exception:
                                pass        # exceptions are C01's business
                            made = sorted(os.listdir(markers))
                            if made:
                                violations.append({
                                    'label': 'a query executed code of the analysed project',
                                    'input': 'project %s, buffer at %s, %s(%d, %d) on %r' % (
                                        pname, loc and os.path.relpath(loc, root), q, li, col, lines[li - 1]),
                                    'observed': 'executed: %r (marker suffix = pid; this process is %d)' % (made, os.getpid())})
                                for m in made:
                                    os.remove(os.path.join(markers, m))
                    for q in ('get_names', 'get_syntax_errors'):
                        evaluations += 1
                        try:
                            getattr(s, q)()
                        except Exception:
                            pass
            try:
                list(project.search('func'))
                list(project.complete_search('Kla'))
            except Exception:
                pass
            evaluations += 2
            made = sorted(os.listdir(markers))
            if made:
                violations.append({'label': 'a query executed code of the analysed project',
                                   'input': 'project %s: Project.search / complete_search' % pname,
                                   'observed': 'executed: %r' % made})
                for m in made:
                    os.remove(os.path.join(markers, m))
        samples.append({'project_files': sorted(os.listdir(root)), 'buffers': len(BUFFERS)})
    finally:
        shutil.rmtree(top, ignore_errors=True)
    counts = {}
    for v in violations:
        counts[v['label']] = counts.get(v['label'], 0) + 1
    return {'name': 'C12.no-execution', 'contract': 'C12.no-execution',
            'evaluations': evaluations, 'distinct_nontrivial': evaluations,
            'rule': 'one project whose 14 modules (plain, a module and a sub-module named like the auto-import name gi, '
                    'package with re-exports, namespace folder, setup.py, conftest, site/usercustomize, a stubbed module, '
                    '__main__, a module with dynamic __all__ and sys.path edits, a sourceless .pyc, a .pth file) write a '
                    'marker file when executed x 3 Project configurations x 3 buffer locations x 7 buffers (absolute, '
                    'relative, star and dynamic imports, exec/eval/__import__ in the text) x 7 query kinds at sampled '
                    'positions + follow-up attributes + project search; oracle: no marker file exists in any process',
            'samples': samples, 'violations': violations[:60], 'violation_counts': counts}
