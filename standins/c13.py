"""C13 bounded stand-in: live object graphs in Interpreter namespaces, every user-defined getter / descriptor / protocol
method counts its calls.

Contract (executable form of the C13 clauses):
  * safe mode (settings.allow_unsafe_interpreter_executions = False): after every query (and after reading the usual
    attributes of its results) the call counter of property getters, descriptor __get__ (class, base, metaclass) and
    user-defined __getitem__/__iter__/__next__/__call__/__len__/__bool__ is still empty,
  * both modes: the completion names after '<path to obj>.' are a superset of dir(obj) (obj an instance or a class),
  * both modes: infer() on a path of plain instance attributes and exact builtin list/tuple/dict items reports the class
    of the object really stored there (the class / function itself for stored classes / functions).

Known on /repo e200cf3 (kept, not hidden): safe mode runs metaclass properties / descriptors (`T.mprop`, getattr_static's
metaclass branch reports is_get_descriptor=False) and the __iter__/__next__ of list / tuple subclasses (`l[0]`,
DirectObjectAccess.py__getitem__all_values iterates anything that isinstance()s list / tuple).
"""
import importlib.util
import itertools
import multiprocessing as mp
import os
import sys
import types

PRELUDE = '''
CALLS = []
GETATTR = []
def hit(kind): CALLS.append(kind)
class Val:
    def __init__(self, n=1):
        self.n = n; self.s = 'x'; self.f = 1.5
def func(a, b=1):
    return a
class DD:
    def __init__(self, where): self.where = where
    def __get__(self, inst, owner): hit(self.where + ' descriptor __get__ (has __set__)'); return Val()
    def __set__(self, inst, value): pass
class DelD:
    def __init__(self, where): self.where = where
    def __get__(self, inst, owner): hit(self.where + ' descriptor __get__ (has only __delete__)'); return Val()
    def __delete__(self, inst): pass
class Both(DD):
    def __get__(self, inst, owner): hit(self.where + ' descriptor __get__ (has __set__ and __delete__)'); return Val()
    def __delete__(self, inst): pass
class ND:
    def __init__(self, where): self.where = where
    def __get__(self, inst, owner): hit(self.where + ' descriptor __get__ (non-data)'); return Val()
class Meta(type):
    @property
    def mprop(cls): hit('metaclass property getter'); return Val()
    mnd = ND('metaclass')
    mdd = DD('metaclass')
'''
BODY = '''
class Proto(%(base)s, metaclass=Meta):
    %(slots)s
    @property
    def prop(self): hit('property getter'); return Val()
    @property
    def prop_ann(self) -> 'No.Such[Type]': hit('property getter (unresolvable annotation)'); return Val()
    dd = DD('class'); deld = DelD('class'); both = Both('class'); nd = ND('class')
    def __getitem__(self, i): hit('__getitem__'); return Val()
    def __iter__(self): hit('__iter__'); return self
    def __next__(self): hit('__next__'); raise StopIteration
    def __call__(self, *a): hit('__call__'); return Val()
    def __len__(self): hit('__len__'); return 1
    def __bool__(self): hit('__bool__'); return True
    %(getattr)s
'''
GETATTRS = {'none': 'pass',
            'getattr': 'def __getattr__(self, name): GETATTR.append(name); raise AttributeError(name)',
            'getattribute': 'def __getattribute__(self, name): GETATTR.append(name); '
                            'return object.__getattribute__(self, name)'}
WHERE = {'own': 'Target = Proto\n', 'base': 'class Target(Proto):\n    %(slots)s\n',
         'dynamic': 'Target = type("Target", (Proto,), {%(dynslots)s})\n'}
ATTRS = ['prop', 'prop_ann', 'dd', 'deld', 'both', 'nd']
ROOTS = ['o', "box['k'][0]", 'box["ns"].inner', "box['sn'].o"]
METHODS = ['complete', 'infer', 'goto', 'help', 'get_signatures']
MORE_METHODS = ['get_references', 'get_context', 'get_names']


def shapes():
    return [dict(zip(('base', 'where', 'slots', 'getattr', 'source', 'shadow'), s)) for s in itertools.product(
        ('object', 'list', 'dict', 'tuple'), ('own', 'base', 'dynamic'), (False, True),
        ('none', 'getattr', 'getattribute'), ('exec', 'file'), (False, True)) if not (s[2] and s[5])]


def build(shape, idx):
    """-> (module namespace, [namespace dicts], object, class)"""
    slots = 'pass' if not shape['slots'] else '__slots__ = ()' if shape['base'] == 'tuple' else \
        "__slots__ = ('plain', 'num')"
    src = PRELUDE + BODY % dict(base=shape['base'], slots=slots, getattr=GETATTRS[shape['getattr']]) + \
        WHERE[shape['where']] % dict(slots='__slots__ = ()' if shape['slots'] else 'pass',
                                     dynslots="'__slots__': ()" if shape['slots'] else '')
    if shape['source'] == 'file':
        path = os.path.join(os.environ['STANDIN_TMP'], 'c13mod_%d_%d.py' % (os.getpid(), idx))
        with open(path, 'w') as f:
            f.write(src)
        spec = importlib.util.spec_from_file_location('c13mod_%d' % idx, path)
        mod = importlib.util.module_from_spec(spec)
        spec.loader.exec_module(mod)
        m = vars(mod)
    else:
        m = {'__name__': 'c13exec_%d' % idx}
        exec(src, m)
    Val, T = m['Val'], m['Target']
    o = T({'list': [Val(), 1], 'tuple': (Val(), 1), 'dict': {'k': Val(), 0: Val()}, 'object': ()}[shape['base']]) \
        if shape['base'] != 'object' else T()
    if not shape['slots']:
        d = object.__getattribute__(o, '__dict__')
        d.update(plain=Val(), num=1, items=[Val(), (1, 'a', Val(2)), None], d={'k': Val(), 'f': m['func'], 'c': Val})
        if shape['shadow']:
            d.update(prop=2.5, dd=2.5, deld=2.5, both=2.5, nd=2.5)
    elif shape['base'] != 'tuple':
        o.plain, o.num = Val(), 1
    holder = type('Dyn', (), {})()
    holder.inner, holder.vals, holder.cls = o, [Val(), {'z': (Val(3), True)}], T
    sn = types.SimpleNamespace(o=o, vals=(Val(), [holder]))
    namespaces = [{'o': o, 'T': T, 'func': m['func']}, {'box': {'k': [o, (o, 2)], 'ns': holder, 'sn': sn}}]
    del m['CALLS'][:], m['GETATTR'][:]
    return m, namespaces, o, T


def codes(idx, seed, tier):
    """safe-mode query texts (cursor at the end); the path to the object rotates over four equivalent routes (quick:
    one route per text, thorough: two)"""
    inst = ['P.'] + [t % a for a in ATTRS for t in ('P.%s', 'P.%s.', 'P.%s.n')] + [
        'P[0]', 'P[0].', "P['k'].n", 'P[0:1].', 'P()', 'P().', 'P(', 'for q in P:\n    q.', 'a, *b = P\na.',
        '[q for q in P][0].', 'list(P)[0].', 'next(iter(P)).', 'next(P).', 'len(P).', 'bool(P).', '(not P).',
        'z = 1 if P else ""\nz.', 'if P:\n    z = 1\nelse:\n    z = ""\nz.', '(P or 1).', 'with P as w:\n    w.',
        '1 in P', 'P == 1', 'func(*P).', 'func(P).', 'print(**P)', 'q = P[0]\nq.', 'P.__iter__().', 'P.__len__().',
        'P.__getitem__(0).', 'P.plain.', 'P.plain.n']
    cls = ['T.'] + [t % a for a in ATTRS + ['mprop', 'mnd', 'mdd'] for t in ('T.%s', 'T.%s.')] + [
        'T().', 'T()[0].', 'T().prop.', 'T().dd', 'T(', 'T[0].', 'for q in T:\n    q.', 'box["ns"].cls.mnd.',
        'T.mro().']
    routes = [[ROOTS[(i + idx + seed + k) % len(ROOTS)] for k in ((0, 2) if tier == 'thorough' else (0,))]
              for i in range(len(inst))]
    return [c.replace('P', r) for c, rs in zip(inst, routes) for r in rs] + cls


def plain_paths(namespaces, limit, offset):
    """(code, real object) for paths (<= 4 steps) through plain instance attributes and exact builtin containers; an
    evenly spread sample of `limit` of them"""
    out, todo = [], [(k, v, 0) for ns in namespaces for k, v in ns.items()]
    while todo:
        code, obj, depth = todo.pop(0)
        out.append((code, obj))
        if depth >= 4:
            continue
        if type(obj) is dict:
            todo += [('%s[%r]' % (code, k), v, depth + 1) for k, v in obj.items()]
        elif type(obj) in (list, tuple):
            todo += [('%s[%d]' % (code, i), v, depth + 1) for i, v in enumerate(obj)]
        elif not isinstance(obj, (type, types.FunctionType)) and type(obj).__module__ != 'builtins':
            try:
                inst = object.__getattribute__(obj, '__dict__')
            except AttributeError:
                continue
            for k, v in inst.items():
                klass = [c.__dict__[k] for c in type(obj).__mro__ if k in c.__dict__]
                if not klass or not (hasattr(type(klass[0]), '__set__') or hasattr(type(klass[0]), '__delete__')):
                    todo.append(('%s.%s' % (code, k), v, depth + 1))   # the instance dict wins in real Python
    step = max(1, len(out) // limit)
    return out[offset % step::step][:limit]


def touch(results):
    for r in results:
        r.name, r.type, r.full_name, r.description, r.module_name, r.line
        if r.name.startswith('__') and r.name not in ('__iter__', '__getitem__', '__call__', '__len__', '__bool__'):
            continue
        r.docstring(), r.get_signatures()   # (get_type_hint needs typeshed, absent in this sandbox)


def check_shape(arg):
    idx, shape, seed, tier = arg
    import jedi
    m, namespaces, o, T = build(shape, idx)
    calls = m['CALLS']
    project = jedi.Project(os.environ['STANDIN_TMP'])
    violations, evaluations, nontrivial = [], 0, 0
    old = jedi.settings.allow_unsafe_interpreter_executions, jedi.settings.cache_directory
    # one parser cache directory per process: parallel workers must not read each other's half-written pickles
    jedi.settings.cache_directory = os.path.join(os.environ['STANDIN_TMP'], 'cache_%d' % os.getpid())

    def ran(kind):
        return 'safe mode: a query ran a user-defined ' + kind + (
            ' of an instance of a%s class' % {'object': ' plain'}.get(shape['base'], ' %s sub' % shape['base'])
            if kind.startswith('__') else '')

    def add(label, code, mode, observed):
        violations.append({'label': label, 'input': 'shape=%r mode=%s code=%r' % (shape, mode, code),
                           'observed': observed[:600]})
    try:
        for mode in ('safe', 'unsafe'):
            jedi.settings.allow_unsafe_interpreter_executions = mode == 'unsafe'
            methods = METHODS + (MORE_METHODS if tier == 'thorough' else [])
            for code in (codes(idx, seed, tier) if mode == 'safe' else []):
                for meth in methods:
                    del calls[:]
                    script = jedi.Interpreter(code, namespaces, project=project)
                    res = script.get_names(all_scopes=True, references=True) if meth == 'get_names' \
                        else getattr(script, meth)()
                    res = res if isinstance(res, list) else [res]   # get_context() answers with a single Name
                    touch(res)
                    evaluations += 1
                    nontrivial += bool(res)
                    for kind in sorted(set(calls)):
                        add(ran(kind), code, mode + ' method=' + meth, 'calls: %r' % calls[:20])
            box = namespaces[1]['box']
            for code, obj in [(r, o) for r in ROOTS] + [('T', T), ('box["ns"].cls', T), ('box["ns"]', box['ns']),
                                                        ("box['sn']", box['sn'])]:
                expected = set(dir(obj))
                del calls[:]
                names = {c.name for c in jedi.Interpreter(code + '.', namespaces, project=project).complete()}
                evaluations += 1
                nontrivial += 1
                if mode == 'safe' and calls:
                    add(ran(calls[0]), code + '.', mode, 'calls: %r' % calls[:20])
                if expected - names:
                    add("names after 'obj.' do not include everything in dir(obj)", code + '.', mode,
                        'missing: %r' % sorted(expected - names))
            for code, obj in plain_paths(namespaces, 40 if tier == 'quick' else 400, idx + seed):
                if type(obj).__module__ == 'types':
                    continue   # SimpleNamespace is only a route here (stdlib types are outside the typeshed-free scope)
                # a stored class / function is identified by its own name; for a class with a custom metaclass the
                # statement's "class of the object" is ambiguous, so the metaclass name is accepted as well
                want = [(obj.__name__, 'class'), (type(obj).__name__, 'class')] if isinstance(obj, type) else \
                    [(obj.__name__, 'function')] if isinstance(obj, types.FunctionType) else \
                    [(type(obj).__name__, 'instance')]
                del calls[:]
                got = sorted({(d.name, d.type) for d in jedi.Interpreter(code, namespaces, project=project).infer()})
                evaluations += 1
                nontrivial += 1
                if mode == 'safe' and calls:
                    add(ran(calls[0]), code, mode, 'calls: %r' % calls[:20])
                if len(got) != 1 or got[0] not in want:
                    add('infer on a plain attribute / builtin container path does not report the stored object',
                        code, mode, 'expected %r, got %r' % (want, got))
    finally:
        jedi.settings.allow_unsafe_interpreter_executions, jedi.settings.cache_directory = old
    return evaluations, nontrivial, violations


# ---------------------------------------------------------------------------------------------------------------------
# Second family: SOURCE-BACKED classes whose live state no longer agrees with what their source says.
#
# The module below is written to a file and registered in sys.modules, so inspect.getsourcefile() finds the source of
# its classes and jedi pairs every live object with a syntax tree (MixedObject).  The source gives every attribute a
# default (class body: a class / an instance / a nested class / a method; __init__: a class / an instance / a dict;
# module level: a class / an instance / a list); at runtime a plan rebinds the attributes - on one instance, on the class itself
# (monkeypatching), on a subclass, on a sub-subclass that also overrides in its source, on the module - to another
# class, an instance of another class, a type()-created subclass, an instance of one, or a list.  "Interpreter
# reflects the live objects": the oracle for every path is real Python (eval of the same expression; the family has no
# user-defined hooks, so eval is harmless), never the source.
#
# Excluded sub-dimensions (unchanged jedi, /repo):
#   * FINDING C13-mixed-function-attribute: an attribute of a source-backed instance / class that holds a plain function
#     (or bound method) at runtime is answered from the SOURCE of the parent (MixedName.infer: `if
#     compiled_value.is_function(): return ValueSet({MixedObject(compiled_value, v) for v in tree_values})`):
#     `p.hook = other_function` is reported as the method the class body defines under that name, and a function
#     stored under a name the source does not define (`p.dyn = function`) is reported as nothing at all ([]).
#     -> no function-valued end point is generated / checked in this family.
#   * sandbox (no typeshed): a name that static analysis does not find in the class bodies of the MRO of a source-backed
#     CLASS receiver falls through to the filters of builtins.type, `assert x is not None` (klass.py get_filters) fails
#     without stubs -> class receivers are only asked for the attributes their class bodies define (c_*).
#   * sandbox (no typeshed): a list / dict display as class-body default (`c_list = [K0()]`) makes the static lookup that
#     MixedName.infer always performs raise AttributeError("'CompiledValue' object has no attribute 'infer'") (the MRO
#     of the stub-less builtin list), whatever is stored at runtime -> no container displays in class bodies.
REBIND_SRC = """
class Val:
    def __init__(self, n=1):
        self.n = n
class K0:
    def __init__(self):
        self.w = Val(0)
    def m0(self): return 1
class K1:
    def __init__(self):
        self.w = Val(1)
    def m1(self): return 1
class K2:
    def __init__(self):
        self.w = Val(2)
    def m2(self): return 1
class Host:
    c_cls = K0
    c_inst = K0()
    class c_nest:
        def mn(self): return 1
    def c_meth(self): return 1
    def __init__(self):
        self.i_cls = K0
        self.i_inst = K0()
        self.i_dict = {'k': K0(), 'c': K0}
class Sub(Host):
    pass
class Over(Sub):
    c_cls = K1
    c_inst = K1()
    def __init__(self):
        Host.__init__(self)
        self.i_inst = K1()
class Holder:
    def __init__(self, held):
        self.held = held
        self.row = [held, (held,)]
m_cls = K0
m_inst = K0()
m_list = [K0(), K0]
"""
RB_SLOTS = ['c_cls', 'c_inst', 'c_nest', 'c_meth', 'i_cls', 'i_inst', 'i_dict', 'd_new']
RB_MSLOTS = ['m_cls', 'm_inst', 'm_list', 'm_new']
RB_TARGETS = ['none', 'obj', 'Host', 'Sub', 'Over']
RB_KINDS = ['cls', 'inst', 'dyncls', 'dyninst', 'seq']
RB_INSTANCES = ['p', 's', 'ov', 'fresh']
RB_ROUTES = ['%s', 'h_%s.held', 'h_%s.row[0]', 'h_%s.row[1][0]', "rb['k'][%d]"]
RB_VARIANTS = len(RB_TARGETS) * len(RB_KINDS)


def rebind_plan(v):
    """slot -> (target, kind, j): over the 25 variants every slot meets every (target, kind)"""
    plan = {}
    for i, slot in enumerate(RB_SLOTS):
        plan[slot] = (RB_TARGETS[(i + v) % len(RB_TARGETS)], RB_KINDS[(i + v // len(RB_TARGETS)) % len(RB_KINDS)],
                      1 + (i + v) % 2)
    for i, slot in enumerate(RB_MSLOTS):
        plan[slot] = ('none' if (i + v) % 3 == 0 else 'mod', RB_KINDS[(i + v) % len(RB_KINDS)], 1 + (i + v // 2) % 2)
    return plan


def build_rebound(v, source, idx):
    """-> (namespaces, {instance name: position in rb['k']}, plan)"""
    name = 'c13rb_%d_%d' % (os.getpid(), idx)
    if source == 'file':
        path = os.path.join(os.environ['STANDIN_TMP'], name + '.py')
        with open(path, 'w') as f:
            f.write(REBIND_SRC)
        spec = importlib.util.spec_from_file_location(name, path)
        mod = importlib.util.module_from_spec(spec)
        sys.modules[name] = mod   # inspect.getsourcefile(<class>) looks the module up in sys.modules
        spec.loader.exec_module(mod)
    else:
        mod = types.ModuleType(name)
        exec(REBIND_SRC, mod.__dict__)
    K = [mod.K0, mod.K1, mod.K2]

    def make(kind, j):
        dyn = type('Dyn%d' % j, (K[j],), {})
        return {'cls': K[j], 'inst': K[j](), 'dyncls': dyn, 'dyninst': dyn(), 'seq': [K[j](), K[j]]}[kind]
    plan = rebind_plan(v)
    objs = {'p': mod.Host(), 's': mod.Sub(), 'ov': mod.Over()}
    for slot, (target, kind, j) in sorted(plan.items()):
        if target == 'obj':
            setattr(objs['p'], slot, make(kind, j))
            setattr(objs['ov'], slot, make(kind, 3 - j))
        elif target == 'mod':
            setattr(mod, slot, make(kind, j))
        elif target != 'none':
            setattr(getattr(mod, target), slot, make(kind, j))
    objs['fresh'] = mod.Host()
    ns = dict(objs, Host=mod.Host, Sub=mod.Sub, Over=mod.Over, mod=mod)
    ns.update(('h_' + k, mod.Holder(o)) for k, o in objs.items())
    return [ns, {'rb': {'k': [objs[k] for k in RB_INSTANCES]}}], plan


def rebound_codes(v, seed, tier):
    """base expressions: every instance x every slot (over rotating / all routes), classes x class-body slots, module"""
    out = []
    for ri, r in enumerate(RB_INSTANCES):
        for si, slot in enumerate(RB_SLOTS):
            picks = range(len(RB_ROUTES)) if tier == 'thorough' else [(ri + si + v + seed) % len(RB_ROUTES)]
            out += [(RB_ROUTES[k] % (ri if '%d' in RB_ROUTES[k] else r)) + '.' + slot for k in picks]
    out += ['%s.%s' % (c, slot) for c in ('Host', 'Sub', 'Over') for slot in RB_SLOTS if slot.startswith('c_')]
    out += ['mod.' + slot for slot in RB_MSLOTS]
    out += ['mod.%s.%s' % (c, slot) for c, slot in (('Host', 'c_cls'), ('Sub', 'c_inst'), ('Over', 'c_cls'))]
    return out


def check_rebound(arg):
    idx, v, source, seed, tier = arg
    import jedi
    namespaces, plan = build_rebound(v, source, idx)
    scope = {k: o for ns in namespaces for k, o in ns.items()}
    project = jedi.Project(os.environ['STANDIN_TMP'])
    violations, evaluations, nontrivial = [], 0, 0
    old = jedi.settings.allow_unsafe_interpreter_executions, jedi.settings.cache_directory
    jedi.settings.cache_directory = os.path.join(os.environ['STANDIN_TMP'], 'cache_%d' % os.getpid())
    missing = object()

    def real_of(code):
        try:
            return eval(code, dict(scope))
        except (AttributeError, LookupError, TypeError):
            return missing

    def add(label, code, mode, observed):
        violations.append({'label': label, 'observed': observed[:600],
                           'input': 'rebound source=%s variant=%d plan=%r mode=%s code=%r' % (
                               source, v, sorted((s, t) for s, t in plan.items() if t[0] != 'none'), mode, code)})
    # one step behind every base expression: instantiate a stored class, index a stored container, read an attribute
    # that the __init__ of the stored instance's class sets
    todo = []
    for code in rebound_codes(v, seed, tier):
        real = real_of(code)
        more = ['()'] if isinstance(real, type) else ['[0]', '[1]', '[1]()'] if type(real) in (list, tuple) else \
            ["['k']", "['c']", "['k'].w"] if type(real) is dict else ['.w'] if real is not missing else []
        todo += [(code + m, m) for m in [''] + more]
    try:
        for mode in ('safe', 'unsafe'):
            jedi.settings.allow_unsafe_interpreter_executions = mode == 'unsafe'
            for code, step in todo:
                real = real_of(code)
                if real is missing or isinstance(real, (types.FunctionType, types.MethodType)):
                    continue   # absent attribute; FINDING C13-mixed-function-attribute (see above)
                want = (real.__name__, 'class') if isinstance(real, type) else (type(real).__name__, 'instance')
                try:
                    got = sorted({(d.name, d.type) for d in jedi.Interpreter(code, namespaces, project=project).infer()})
                    evaluations += 1
                    nontrivial += bool(got)
                    if got != [want]:
                        add('infer on a plain attribute / builtin container path does not report the stored object',
                            code, mode, 'expected %r (what real Python finds there), got %r' % (want, got))
                    if type(real).__module__ != 'builtins' and not step.endswith(')'):
                        names = {c.name for c in jedi.Interpreter(code + '.', namespaces, project=project).complete()}
                        evaluations += 1
                        nontrivial += bool(names)
                        if set(dir(real)) - names:
                            add("names after 'obj.' do not include everything in dir(obj)", code + '.', mode,
                                'missing: %r' % sorted(set(dir(real)) - names))
                except Exception as e:   # a crashing query reports nothing about the stored object either
                    add('Interpreter query on a live object raised', code, mode, '%s: %s' % (type(e).__name__, e))
    finally:
        jedi.settings.allow_unsafe_interpreter_executions, jedi.settings.cache_directory = old
    return evaluations, nontrivial, violations


def _init_worker(repo):
    import sys
    sys.path.insert(0, repo)   # the tree under test, as in standins.runner


def rebound_variants(seed, tier):
    """(variant, source): thorough = all 25 plans x file/exec; quick = 5 file-backed plans (stride 6: the five differ in
    the target rotation AND in the kind rotation) + 1 exec-created one"""
    if tier == 'thorough':
        return [(v, src) for v in range(RB_VARIANTS) for src in ('file', 'exec')]
    vs = [(6 * k + seed) % RB_VARIANTS for k in range(5)]
    return [(v, 'file') for v in vs] + [(vs[seed % 5], 'exec')]


def _task(arg):
    return (check_rebound if arg[0] == 'rebound' else check_shape)(arg[1:])


def run(repo, seed, tier):
    all_shapes = list(enumerate(shapes()))
    chosen = [(i, s, seed, tier) for i, s in all_shapes if tier == 'thorough' or (i + seed) % 5 == 0]
    rebound = [(i, v, src, seed, tier) for i, (v, src) in enumerate(rebound_variants(seed, tier))]
    # spawned (not forked) workers: after a fork of the jedi-laden parent the same work costs 2x user, 20x system time
    with mp.get_context('spawn').Pool(min(16, os.cpu_count() or 4), initializer=_init_worker,
                                      initargs=(repo,)) as pool:
        results = pool.map(_task, [('rebound',) + a for a in rebound] + [('shape',) + a for a in chosen], chunksize=1)
    violations = [v for r in results for v in r[2]]
    counts, kept = {}, []
    for v in violations:
        counts[v['label']] = counts.get(v['label'], 0) + 1
        if counts[v['label']] <= 3 and len(kept) < 50:
            kept.append(v)
    ncodes = len(codes(0, 0, tier))
    return {'name': 'C13.object-graphs', 'contract': 'C13.safe-mode',
            'evaluations': sum(r[0] for r in results), 'distinct_nontrivial': sum(r[1] for r in results),
            'rule': '%d of %d object-graph shapes (builtin base object/list/dict/tuple x features defined on the class / a '
                    'base / a base of a type()-created class x __slots__ x none/__getattr__/__getattribute__ x exec-created '
                    'or file-backed source x descriptors shadowed by instance __dict__ entries); every class has two '
                    'properties (one with an unresolvable annotation), four descriptor kinds, a metaclass with a property '
                    'and two descriptors, and counting __getitem__/__iter__/__next__/__call__/__len__/__bool__; the object '
                    'sits in two namespaces, in nested dict/list/tuple, in an instance of a type()-created class and in a '
                    'SimpleNamespace. Safe mode: %d query texts x %s (plus the usual attributes of every result), '
                    'counters must stay empty. Both modes: completion after "obj." (4 routes to the object, 2 to the '
                    'class, the two holders) must cover dir(obj); infer on <= %d plain attribute / builtin-container '
                    'paths (<= 4 steps) must name type(real object) (stdlib-typed end points skipped, either name '
                    'accepted for a class with a custom metaclass). Second family, %d of %d rebinding plans: a module '
                    'written to a file and registered in sys.modules (classes with findable source -> MixedObject; one '
                    'more plan / all plans again exec-created) gives class-body, __init__ and module-level defaults (class, '
                    'instance, nested class, method, dict, list); at runtime every attribute is rebound on an instance / the class / a '
                    'subclass / a sub-subclass overriding in its source / the module, or newly added, to another class, '
                    'an instance, a type()-created subclass, an instance of one, or a list. infer on instance.attr (5 '
                    'routes: name, attribute of a source-backed holder, its list / tuple items, dict/list item), '
                    'Class.attr (3 classes), module.attr, module.Class.attr and one step behind (call of a stored class, '
                    'item of a stored container, attribute of a stored instance) must name what real Python (eval) finds '
                    'there, completion after it must cover dir() of it; function-valued end points excluded (finding '
                    'C13-mixed-function-attribute). distinct_nontrivial = evaluations with a non-empty answer.' % (
                        len(chosen), len(all_shapes), ncodes,
                        '/'.join(METHODS + (MORE_METHODS if tier == 'thorough' else [])),
                        40 if tier == 'quick' else 400, len(rebound), 2 * RB_VARIANTS),
            'samples': [{'shape': chosen[0][1], 'code': codes(chosen[0][0], seed, tier)[1], 'mode': 'safe',
                         'oracle': 'no counted call'},
                        {'shape': chosen[-1][1], 'code': 'box["ns"].inner.', 'oracle': 'names >= dir(obj)'},
                        {'code': "box['k'][0].items[1][2]", 'oracle': "infer -> ('Val', 'instance')"},
                        {'rebinding plan': rebind_plan(rebound[0][1]), 'code': rebound_codes(rebound[0][1], seed, tier)[0],
                         'oracle': 'infer -> name / kind of eval(code) in real Python'}],
            'violations': kept, 'violation_counts': counts}
