"""C14 bounded stand-in: the helper process of the default environment is killed at every request index of a few query
scenarios, in every phase of the request/reply protocol, up to 3 times in a row (fault injection by monkeypatching in the
stand-in's own worker processes only); the disturbed query may only fail with InternalError and may not hang, the next
Scripts must answer like an undisturbed process, dead helpers must be reaped, fds must not grow, and the real helper's
Listener._inference_states must shrink back after Scripts were dropped (probed through a `eval` request)."""
import gc
import inspect
import io
import json
import math
import os
import random
import signal
import subprocess
import sys
import threading
import time

SCENARIOS = [('import math\nmath.sq', 'complete', 2, 7), ('import itertools\nitertools.cha', 'complete', 2, 13),
             ('len', 'infer', 1, 2), ('import math\nmath.pow(', 'get_signatures', 2, 9)]
PHASES = ['before send', 'after send/before reply', 'truncated reply', 'helper raises']
WATCHDOG = 90
PROBE = ("(lambda gc: (gc.collect(), [len(o._inference_states) for o in gc.get_objects() if type(o).__name__ == "
         "'Listener'][0], len([o for o in gc.get_objects() if type(o).__name__ == 'InferenceState']))[1:])"
         "(__import__('gc'))")
L_EXC = 'disturbed query failed with something other than InternalError: '
L_WRONG = 'disturbed query neither failed nor returned the undisturbed answer'
L_HANG = 'query hangs on a dead helper'
L_LATER = 'a later Script after the crash(es) does not return the undisturbed answer'
L_ZOMBIE = 'dead helper not reaped (zombie child)'
L_FDS = 'open file descriptors / threads grow across crash-recover cycles'
L_STATE = 'helper-side inference states of discarded Scripts are not released'
L_LIVE = 'a live Script stops working after other Scripts were discarded'


def digest(jedi, sc, keep=None):
    """one query = new Script + API call + rendering; ('ok', answer) | ('exc', type name)"""
    code, kind, line, col = sc
    try:
        script = jedi.Script(code)
        if keep is not None:
            keep.append(script)         # a client may hold on to its Script objects
        res = getattr(script, kind)(line, col)
        if kind == 'complete':
            return 'ok', [[c.name, c.type] for c in res]
        if kind == 'infer':
            return 'ok', [[d.name, d.type, d.full_name, d.module_name, d.docstring(raw=True)[:30]] for d in res]
        return 'ok', [[s.name, s.to_string(), s.index] for s in res]
    except Exception as e:
        return 'exc', type(e).__name__


def proc_state(pid):
    try:
        with open('/proc/%d/stat' % pid) as f:
            rest = f.read().rsplit(')', 1)[1].split()
        return rest[0] if int(rest[1]) == os.getpid() else None
    except (OSError, IndexError):
        return None


class Faults:
    """counts the requests of CompiledSubprocess._send and kills the helper at an armed (k, phase, cut)"""
    def __init__(self, sub):
        self.count, self.armed, self.fired, self.killed, self.pids = 0, None, False, [], set()
        self.after_dump = self.cut = None
        orig_send, orig_dump, orig_load = sub.CompiledSubprocess._send, sub.pickle_dump, sub.pickle_load
        me = self

        def _send(cs, sid, function, args=(), kwargs={}):
            k, me.count = me.count, me.count + 1
            if cs.is_crashed:
                return orig_send(cs, sid, function, args, kwargs)
            pid = cs._get_process().pid
            me.pids.add(pid)
            if me.armed is not None and me.armed[0] == k and proc_state(pid) not in (None, 'Z'):
                phase, me.cut, me.armed, me.fired = me.armed[1], me.armed[2], None, True
                me.killed.append(pid)
                if phase == 0:
                    me.kill(pid)
                elif phase == 1:
                    os.kill(pid, signal.SIGSTOP)      # the request stays unread in the pipe: really "in flight"
                    me.after_dump = lambda: me.kill(pid)
                elif phase == 2:
                    me.after_dump = lambda: setattr(me, 'cut_pid', pid)
                else:
                    function, kwargs = sub.functions._test_raise_error, {}
                    args = (KeyboardInterrupt,) if sid is not None else (None, KeyboardInterrupt)
            return orig_send(cs, sid, function, args, kwargs)

        def dump(data, file, protocol):
            orig_dump(data, file, protocol)
            if me.after_dump is not None:
                f, me.after_dump = me.after_dump, None
                f()

        def load(file):
            pid, me.cut_pid = getattr(me, 'cut_pid', None), None
            if pid is None:
                return orig_load(file)
            tee = _Tee(file)            # let the helper write its complete reply, kill it, replay a prefix + real EOF
            orig_load(tee)
            me.kill(pid)
            n = len(tee.buf)
            return orig_load(_Prefix(tee.buf[:n // 2 if me.cut < 0 else min(me.cut, n - 1)], file))
        sub.CompiledSubprocess._send, sub.pickle_dump, sub.pickle_load = _send, dump, load

    @staticmethod
    def kill(pid):
        os.kill(pid, signal.SIGKILL)
        os.waitid(os.P_PID, pid, os.WEXITED | os.WNOWAIT)      # dead (pipes closed) but deliberately NOT reaped by us


class _Tee:
    def __init__(self, f):
        self.f, self.buf = f, b''

    def read(self, n=-1):
        d = self.f.read(n)
        self.buf += d
        return d

    def readline(self):
        d = self.f.readline()
        self.buf += d
        return d


class _Prefix:
    def __init__(self, data, f):
        self.f, self.b = f, io.BytesIO(data)

    def read(self, n=-1):
        d = self.b.read(n)
        if n < 0:
            return d + self.f.read()
        return d + self.f.read(n - len(d)) if len(d) < n else d

    def readline(self):
        d = self.b.readline()
        return d if d.endswith(b'\n') else d + self.f.readline()


class Worker:
    def __init__(self, repo, cache):
        sys.path.insert(0, repo)
        import jedi
        import jedi.inference.compiled.subprocess as sub
        jedi.settings.cache_directory = cache
        self.jedi, self.faults, self.out = jedi, Faults(sub), {'violations': [], 'evaluations': 0, 'samples': []}
        self.main_thread, self.t0, self.keep, self.keep_all = threading.get_ident(), time.time(), [], False

    def violation(self, label, inp, observed):
        self.out['violations'].append({'label': label, 'input': inp, 'observed': str(observed)[:600]})

    def finish(self, code=0):
        self.out['wall_s'] = round(time.time() - self.t0, 1)
        print('WORKER-RESULT ' + json.dumps(self.out))
        sys.stdout.flush()
        for pid in self.faults.pids:
            if proc_state(pid) is not None:
                try:
                    os.kill(pid, signal.SIGKILL)
                except OSError:
                    pass
        os._exit(code)

    def query(self, sc, fault=None, desc=''):
        """run one query under a watchdog; expiry is a violation only if we are blocked on a verifiably dead helper"""
        f = self.faults
        f.count, f.armed, f.fired = 0, fault, False
        done = threading.Event()

        def watch():
            if done.wait(WATCHDOG):
                return
            names = []
            fr = sys._current_frames().get(self.main_thread)
            while fr is not None:
                names.append(fr.f_code.co_name)
                fr = fr.f_back
            dead = f.killed and proc_state(f.killed[-1]) in (None, 'Z')
            if fault is not None and f.fired and dead and {'_send', '_cleanup_process', '_kill'} & set(names):
                self.violation(L_HANG, desc, 'blocked for %d s in %s' % (WATCHDOG, names[:8]))
                self.finish(0)
            self.out['harness_error'] = 'watchdog expired outside a helper read: %s %s' % (desc, names[:12])
            self.finish(3)
        t = threading.Thread(target=watch, daemon=True)
        t.start()
        try:
            res = digest(self.jedi, sc, self.keep)
        finally:
            done.set()
            t.join()
        if fault is not None and not f.fired and res[0] == 'ok':
            raise RuntimeError('fault %r did not fire (%d requests): %s' % (fault, f.count, desc))
        return res, f.count

    def sequence(self, si, seq, base):
        """seq = [(k, phase, cut)]: consecutive disturbed queries, then two undisturbed ones"""
        sc = SCENARIOS[si]
        desc = 'scenario %r, faults (request index, phase, cut) = %r' % (sc, [(k, PHASES[p], c) for k, p, c in seq])
        self.out['evaluations'] += 1
        del self.faults.killed[:]
        if not self.keep_all:
            del self.keep[:]                # the Scripts of one sequence stay alive until the sequence was judged
        outcomes = []
        for fault in seq:
            (status, val), _ = self.query(sc, fault, desc)
            outcomes.append(val if status == 'exc' else 'ok')
            if not self.faults.fired:       # failed before the point of the fault was reached: an UNdisturbed query failed
                self.violation(L_LATER, desc, 'the query failed before fault %r was injected: %r' % (fault, outcomes))
                break
            if status == 'exc' and val != 'InternalError':
                self.violation(L_EXC + val, desc, 'outcomes of the disturbed queries: %r' % outcomes)
            elif status == 'ok' and val != base:
                self.violation(L_WRONG, desc, 'returned %r' % (val,))
        for i in range(2):
            res, _ = self.query(sc, None, desc)
            if res != ('ok', base):
                self.violation(L_LATER, desc, 'query %d after the faults: %r (disturbed: %r)' % (i + 1, res, outcomes))
        gc.collect()
        z = [pid for pid in self.faults.killed if proc_state(pid) == 'Z']
        if z:
            self.violation(L_ZOMBIE, desc, 'killed helper pids %r are zombies after recovery + gc.collect()' % z)
        if len(self.out['samples']) < 2:
            self.out['samples'].append({'faults': desc, 'disturbed': outcomes, 'later': 'same as undisturbed'})

    def warm(self, si, base):
        for _ in range(2):
            res, n = self.query(SCENARIOS[si])
            if res != ('ok', base):
                raise RuntimeError('undisturbed run differs from the undisturbed baseline: %r' % (res,))
        del self.keep[:]
        return n

    def job_faults(self, si, phase, base, seed, tier):
        rng = random.Random(seed * 1000 + si * 10 + phase)
        n = self.warm(si, base)                       # requests of a run on a warm helper; a new helper adds _get_info
        cuts = [-1, 1, 10 ** 6, 3, 12] if phase == 2 else [-1]   # reply cut at: -1 -> half, n -> n bytes, 10**6 -> len-1
        for k in range(n):
            for cut in (cuts if tier == 'thorough' else [cuts[k % min(3, len(cuts))]]):
                self.sequence(si, [(k, phase, cut)], base)
        reps = [(k, r) for k in range(n + 1) for r in (2, 3)] if tier == 'thorough' else [(0, 2), (0, 3), (1, 2), (n, 3)]
        for k, r in reps:                              # the same point again on the replacement helper(s)
            self.sequence(si, [(min(k, n - 1), phase, -1)] + [(k, phase, -1)] * (r - 1), base)
        for _ in range(12 if tier == 'thorough' else 2):  # mixed phases / points
            seq = [(rng.randrange(n), phase, -1)]
            seq += [(rng.randrange(n + 1), rng.randrange(4), rng.choice([-1, 1, 3, 12, 10 ** 6]))
                    for _ in range(rng.randint(1, 2))]
            self.sequence(si, seq, base)

    def job_cycles(self, bases, seed, tier):
        rng = random.Random(seed)
        ns = [self.warm(si, bases[si]) for si in range(len(SCENARIOS))]
        self.keep_all = True                # every Script of the cycles stays alive up to the final accounting
        gc.collect()
        before = (len(os.listdir('/proc/self/fd')), threading.active_count())
        cycles = 60 if tier == 'thorough' else 20
        killed = []
        for c in range(cycles):
            si = c % len(SCENARIOS)
            self.sequence(si, [(rng.randrange(ns[si]), c % 4, -1)] * (1 + (c % 7 == 6)), bases[si])
            killed += self.faults.killed
        gc.collect()
        after = (len(os.listdir('/proc/self/fd')), threading.active_count())
        desc = '%d crash/recover cycles over all scenarios and phases (seed %d)' % (cycles, seed)
        self.out['evaluations'] += 1
        if after[0] > before[0] or after[1] > before[1]:
            self.violation(L_FDS, desc, '(fds, threads) before %r after %r' % (before, after))
        z = [pid for pid in killed if proc_state(pid) == 'Z']
        if z:
            self.violation(L_ZOMBIE, desc, 'zombies: %r' % z)

    def job_release(self, bases, seed, tier):
        jedi = self.jedi
        self.warm(0, bases[0])
        env = jedi.Script('')._inference_state.environment
        sizes = [1, 2, 10, 50, 200] if tier == 'quick' else [1, 2, 3, 10, 50, 100, 200]
        desc = ''

        def use(kind, s=None):
            """a Script that made >= 1 helper request ('query'), only a raising one ('raise'), or none ('unused')"""
            s = s or jedi.Script('import math\nmath.sq')
            try:
                if kind in ('query', 'again'):    # oracle = real Python; docstrings need the helper-side handles of s
                    col, names = (7, ['sqrt']) if kind == 'query' else (6, [n for n in dir(math) if n.startswith('s')])
                    got = [(c.name, c.docstring(raw=True)) for c in s.complete(2, col)]
                    if got != [(n, inspect.getdoc(getattr(math, n))) for n in sorted(names)]:
                        self.violation(L_LIVE, desc, 'completions %r' % got)
                elif kind == 'raise':
                    try:
                        s._inference_state.compiled_subprocess._test_raise_error(ValueError)
                    except ValueError:
                        pass
            except Exception as e:
                self.violation(L_LIVE, desc, repr(e))
            return s

        def check(live):
            """flush the deletion queue with one more request of a live Script, then read the helper's state count"""
            gc.collect()
            keeper = use('query')
            count = env._get_subprocess()._send(None, eval, (PROBE,))
            self.out['evaluations'] += 1
            if list(count) != [live + 1, live + 1]:
                self.violation(L_STATE, desc, '(len(Listener._inference_states), live InferenceState objects) == %r in '
                                              'the helper, %d used Scripts are alive' % (count, live + 1))
            if len(self.out['samples']) < 2:
                self.out['samples'].append({'history': desc, 'helper_state_count': count, 'live_scripts': live + 1})
            del keeper

        for n in sizes:
            for kinds in (['query'], ['raise'], ['query', 'raise', 'unused']):
                desc = '%d Scripts (%s) created and dropped one by one' % (n, '/'.join(kinds))
                for i in range(n):
                    use(kinds[i % len(kinds)])
                check(0)
                keep_at = range(0, n, 7)[:5] if n >= 10 else []
                desc = '%d Scripts (%s) alive at once, all but %d dropped at once between two requests of a survivor' % (
                    n, '/'.join(kinds), len(keep_at))
                survivor = use('query')
                batch = [use(kinds[i % len(kinds)]) for i in range(n)]
                keep = [batch[i] for i in keep_at]
                del batch
                check(1 + len([i for i in keep_at if kinds[i % len(kinds)] != 'unused']))
                for s in [survivor] + keep:                              # the live ones still work (again: math.sqrt)
                    use('again', s)
                s = survivor = keep = None
                desc += ', then all dropped'
                check(0)


def worker_main():
    job = json.loads(sys.argv[1])
    w = Worker(job['repo'], job['cache'])
    if job['job'] == 'faults':
        w.job_faults(job['si'], job['phase'], job['bases'][job['si']], job['seed'], job['tier'])
    elif job['job'] == 'cycles':
        w.job_cycles(job['bases'], job['seed'], job['tier'])
    else:
        w.job_release(job['bases'], job['seed'], job['tier'])
    w.finish(0)


def run(repo, seed, tier):
    import jedi
    bases = []
    for sc in SCENARIOS:                                   # the undisturbed run: this process never injects a fault
        status, val = digest(jedi, sc)
        if status != 'ok' or not val:
            raise RuntimeError('undisturbed baseline is trivial for %r: %r' % (sc, val))
        bases.append(json.loads(json.dumps(val)))
    if bases[0] != [['sqrt', 'function']] or bases[2][0][:2] != ['len', 'function']:
        raise RuntimeError('baseline does not match real Python: %r' % (bases,))
    jobs = [{'job': 'faults', 'si': si, 'phase': p} for si in range(len(SCENARIOS)) for p in range(4)]
    jobs += [{'job': 'cycles'}, {'job': 'release'}]
    here = os.path.dirname(os.path.dirname(os.path.abspath(__file__)))
    procs = []
    for i, job in enumerate(jobs):
        job.update(repo=repo, seed=seed, tier=tier, bases=bases, cache=os.path.join(os.environ['STANDIN_TMP'], 'w%d' % i))
        procs.append(subprocess.Popen([sys.executable, '-c', 'from standins.c14 import worker_main; worker_main()',
                                       json.dumps(job)], stdout=subprocess.PIPE, stderr=subprocess.PIPE, text=True,
                                      start_new_session=True, env=dict(os.environ, PYTHONPATH=here)))
    results, errors = [], []
    deadline = time.time() + (1500 if tier == 'thorough' else 600)
    for job, p in zip(jobs, procs):
        try:
            out, err = p.communicate(timeout=max(1, deadline - time.time()))
            line = [ln for ln in out.splitlines() if ln.startswith('WORKER-RESULT ')]
            if p.returncode != 0 or not line:
                errors.append('worker %r failed (rc %r): %s' % ({k: job[k] for k in job if k in ('job', 'si', 'phase')},
                                                                p.returncode, (line or [err[-1500:]])[-1]))
            else:
                results.append(json.loads(line[-1][len('WORKER-RESULT '):]))
        except subprocess.TimeoutExpired:
            errors.append('worker %r exceeded the harness deadline' % job['job'])
        finally:
            try:
                os.killpg(p.pid, signal.SIGKILL)            # the worker and any helper it may have left behind
            except OSError:
                pass
            p.wait()
    jedi.Script('')._inference_state.environment._get_subprocess()._kill()     # our own helper
    if errors:
        raise RuntimeError('; '.join(errors))
    violations = [v for r in results for v in r['violations']]
    counts = {}
    for v in violations:
        counts[v['label']] = counts.get(v['label'], 0) + 1
        v['_rank'] = counts[v['label']]
    violations.sort(key=lambda v: v.pop('_rank'))           # every label is represented within the cap of 50
    evaluations = sum(r['evaluations'] for r in results)
    return {'name': 'C14.helper-crash-points', 'contract': 'C14.crash-contained-and-recovered',
            'evaluations': evaluations, 'distinct_nontrivial': evaluations,
            'rule': '%d query scenarios (complete on math/itertools, infer len, signatures math.pow) x every request index '
                    'of CompiledSubprocess._send x phase {%s} (reply cut after 1 byte / half / all but 1 byte, rotating; '
                    'thorough: 5 cuts each), the same point 2 and 3 times in a row on the replacement helpers (incl. their '
                    'first _get_info request; quick: 4 points, thorough: all), 2/12 seeded mixed sequences of 2-3 faults per '
                    'scenario x phase, 20/60 crash-recover cycles with fd/thread/zombie accounting while all Scripts stay '
                    'alive, and create/drop histories of up to 200 Scripts (querying / raising inside the helper / unused; '
                    'one by one and all at once between two requests of a survivor) with len(Listener._inference_states) '
                    'and the live InferenceState objects read from the REAL helper through an eval request. Oracle: only '
                    'InternalError may escape a disturbed query, no hang (watchdog %d s, only counted when blocked on a '
                    'verifiably dead helper), later Scripts answer like this never-disturbed process, killed pids are not '
                    'zombies, fds do not grow, helper state count == live used Scripts, live Scripts keep answering like '
                    'real Python (dir(math), inspect.getdoc).'
                    % (len(SCENARIOS), ', '.join(PHASES), WATCHDOG),
            'worker_wall_s': sorted(r['wall_s'] for r in results)[-4:],
            'samples': [r['samples'][0] for r in (results[0], results[6], results[-1]) if r['samples']],
            'violations': violations[:50],
            'violation_counts': counts}
