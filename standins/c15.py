"""C15 bounded stand-in: self-referential programs x every public query at every use of a name, each query under a
CPU-time watchdog in a worker process; plus scaling families (chains, diamonds, binary trees) whose measured work
(number of Python function calls of the query, counted with sys.monitoring) must grow polynomially with n.

Oracle (from the property text only): a query RETURNS - it does not raise RecursionError (also wrapped), it does not
need more than LIMIT_CALLS Python calls (or LIMIT_S seconds of user CPU) for a program of <= 40 definitions (confirmed
by replaying that one query alone in a new process), and work(2n) <= 8 * work(n) + C, never ~doubling per +1 over
four consecutive sizes."""
import json
import os
import random
import subprocess
import sys
import time
from concurrent.futures import ThreadPoolExecutor

LIMIT_CALLS = 20000000  # work budget per query: Python function calls (deterministic; ~45 x the largest legitimate query)
LIMIT_S = 90.0          # backstop: seconds of user-mode CPU time of the worker per query (not wall, not system time)
MAX_HANGS = 3           # after that many aborted queries the rest of the file is skipped (bounds the run on a bad tree)
FLOOR = 30000           # work units (Python calls): growth below this over a run of sizes is noise
CONST = 250000          # the constant C of work(2n) <= 8 * work(n) + C (one-time costs such as a lazily loaded stub module)
# Sandbox artefact, not reported: without typeshed (empty submodule here) list/tuple/dict literals are generic classes over
# COMPILED builtins, and any attribute access on them (`x = []; x.append`, no cycle in the program at all) recurses in
# ClassMixin.get_filters -> `yield from cls.get_filters(...)` until RecursionError. Signature: > 90 % of the traceback
# frames are klass.py:get_filters. Other exceptions (AssertionError in get_filters, ...) are C01's business, only counted.
HANG = 'query did not return within the work budget of %d Python calls / %g s CPU (confirmed alone)' % (LIMIT_CALLS, LIMIT_S)
ENV_ARTEFACT = 'RecursionError with > 90 % of the frames in inference/value/klass.py:get_filters'
FOLLOW = ['goto', 'infer', 'docstring', 'get_signatures', 'defined_names', 'get_line_code', 'get_type_hint',
          'execute', 'parent']

SINGLE = {
    'cyclic-assign': 'a = b\nb = a\na = a.x\nb = b[0]\na\nb.y\nfor i in [1]:\n    c = d\n    d = c\n    c = c.z\nc.z\nd\n'
                     'a = 1\nwhile a:\n    a = a + a\n    a += a\n    e, a = a, e\na\ne\n',
    'self-attr-cycle': 'class R:\n    def m(self):\n        self.a = self.a\n        self.b = self.b.m()\n        self.c = self.d\n'
                       '    def n(self):\n        self.d = self.c\n        self.a = [self.a]\n        return self.n().a\n'
                       'R().a\nR().b\nR().c.x\nR().m()\nR().n()[0]\n',
    'unbounded-recursion': 'def f(x):\n    return f(x + 1)\ndef g(x):\n    return [g(x)]\ndef h(x):\n    return h(h(x))\n'
                           'def k(x=k):\n    return x(k)\nf(1)\ng(1)[0][0]\nh(1).real\nk()\nk(k(k))\n',
    'mutual-recursion': 'def even(n):\n    return odd(n - 1)\ndef odd(n):\n    return even(n - 1) or third(n)\n'
                        'def third(n):\n    return even(odd(third(n)))\neven(3)\nthird(1).x\nodd(even)\n',
    'self-inheritance': 'class A(A):\n    x = 1\nclass B(C):\n    pass\nclass C(B):\n    y = B\nclass B(C):\n    z = C.y\n'
                        'class A(A, B):\n    w = A\nA().x\nA.w.w\nB().y\nC.y.z\nB().z.q\nC().nothing\n',
    'factory-inheritance': 'def make_base():\n    class Mixin(Model):\n        def save(self):\n            return self\n'
                           '    return Mixin\nclass Model(make_base()):\n    def load(self):\n        return self.save()\n'
                           'm = Model()\nm.load()\nm.save().load\nm.missing\nmake_base()().save\n',
    'factory-mutual': 'def fa():\n    class XA(fb()):\n        pa = 1\n    return XA\ndef fb():\n    class XB(fa()):\n        pb = 2\n'
                      '    return XB\nclass Top(fa(), fb()):\n    def m(self):\n        return self.pa or self.pb or self.m()\n'
                      'Top().pa\nTop().m()\nfa()().pb\n',
    'container-self': 'l = []\nl.append(l)\nl[0][0]\nd = {}\nd["k"] = d\nd["k"]["k"]\ndef f():\n    x = []\n    for i in x:\n'
                      '        x = [x, i]\n        x.append(x)\n    return x\nf()[0][0]\nfor q in f():\n    q\nt = (1, t)\nt[1][1]\n',
    'recursive-decorator': 'def deco(f):\n    return deco(f)\n@deco\ndef a():\n    return 1\na()\ndef deco2(f):\n    @deco2\n'
                           '    def inner(*args):\n        return f(*args)\n    return inner\n@deco2\n@deco2\ndef b():\n    return b\n'
                           'b()()\n@b\nclass D:\n    pass\nD().x\n',
    'property-self': 'class P:\n    @property\n    def me(self):\n        return self.me\n    @property\n    def other(self):\n'
                     '        return self.other.me.other\n    @property\n    def chain(self):\n        return P().chain\n'
                     'P().me\nP().other.me\nP().chain.x\n',
    'recursive-generator': 'def gen(n):\n    yield from gen(n)\n    for x in gen(n):\n        yield x\n    yield [y for y in gen(n)]\n'
                           'for v in gen(1):\n    v\nnext(gen(2))\nlist(gen(3))[0]\na, *b = gen(4)\na\nb\n',
    'getattr-self': 'class G:\n    def __getattr__(self, name):\n        return self.attr\nclass H:\n    def __getattr__(self, name):\n'
                    '        return getattr(self, name)\nclass I:\n    def __getattr__(self, n):\n        return I().other\n'
                    '    def __getattribute__(self, n):\n        return self.__getattr__(n).again\nG().foo\nG().foo.bar\nH().x\nI().y.z\n',
    'metaclass-cycle': 'class M(type, metaclass=M):\n    def __call__(cls):\n        return cls()\nclass K(metaclass=M):\n    pass\n'
                       'K().a\nclass M1(type, metaclass=M2):\n    pass\nclass M2(type, metaclass=M1):\n    pass\n'
                       'class M1(type, metaclass=M2):\n    attr = 1\nclass Z(metaclass=M1):\n    pass\nZ.attr\nZ().attr\nZ(\n',
    'closure-cycle': 'f = lambda: f\nf()()()\ng = lambda x: g(g)\ng(1)\ndef outer():\n    def inner():\n        return outer()\n'
                     '    return inner\nouter()()()()\n',
    'dunder-cycle': 'class Cb:\n    def __call__(self):\n        return self()\n    def __getitem__(self, i):\n        return self[i]\n'
                    '    def __iter__(self):\n        return iter(self)\n    def __enter__(self):\n        with self as s:\n'
                    '            return s\n    def __get__(self, inst, owner):\n        return inst.d\n    def __add__(self, o):\n'
                    '        return self + o\nclass Own:\n    d = Cb()\nCb()()\nCb()[0]\nfor q in Cb():\n    q\nwith Cb() as w:\n    w\n'
                    'Own().d\nOwn.d\n(Cb() + Cb()).x\n',
    'dynamic-params': 'def dyn(p):\n    return p\ndyn(dyn(1))\ndef dyn2(q):\n    dyn2(q.x)\n    q\n    return q\ndyn2(dyn2)\n'
                      'def dyn3(r):\n    r\n    return dyn4(r)\ndef dyn4(s):\n    s\n    return dyn3(s)\ndyn3(1)\ndyn4(dyn3)\n',
    'class-var-cycle': 'class V:\n    x = y\n    y = x\n    def m(self):\n        return V.x or self.m().y\nV.x\nV().m().y\n'
                       'class S1:\n    def m(self):\n        return super().m()\nclass S2(S1):\n    def m(self):\n'
                       '        return super().m() or self.m()\nS2().m()\n',
    'annotation-cycle': 'class N:\n    nxt: "N"\n    def step(self) -> "N":\n        return self.nxt.step()\nN().nxt.nxt.step().nxt\n'
                        'x: x = x\nx\ndef ann(a: "ann") -> "ann":\n    return a\nann(1)\nfoo = 1\nfoo = foo  # type: foo\nfoo\n',
    'comprehension-cycle': 'xs = [x for x in xs]\nxs = [ys for ys in [xs]]\nxs[0]\nclass F:\n    def __init__(self):\n'
                           '        self.r = [1]\n    def a(self):\n        self.r = [x for x in self.r]\n'
                           '        self.r = {k: self.r for k in self.r}\n        self.r = (self.r,)\nF().r[0]\n',
}
PROJECTS = {
    'pkg-self-import': {'shop/__init__.py': 'from shop import cart\nfrom shop.cart import Cart\ntotal = cart.total\n',
                        'shop/cart.py': 'import shop\nfrom shop import total\nclass Cart:\n    t = shop.total\nCart().t\ntotal\n',
                        'main.py': 'import shop\nshop.cart.Cart().t\nshop.total\nfrom shop import *\ncart\n'},
    'mutual-modules': {'a.py': 'from b import y\nimport b\nx = y\nz = b.x2\nx\n', 'b.py': 'from a import x\nimport a\ny = x\nx2 = a.z\ny\n',
                       'main.py': 'import a, b\na.x\nb.y\na.z.q\nb.a.b.a.x\n'},
    'relative-cycle': {'pk/__init__.py': 'from . import x\nfrom .x import val\nfrom .x import *\nfrom . import pk\nval\n',
                       'pk/x.py': 'from . import x\nfrom . import val\nfrom .x import val as v2\nfrom pk import *\nv2\nval\n',
                       'main.py': 'from pk import val, x\nval\nx.x.x\nimport pk.x\npk.x.val\npk.pk\n'},
    'star-cycle': {'s1.py': 'from s2 import *\nv1 = v2\n', 's2.py': 'from s1 import *\nv2 = v1\n',
                   'main.py': 'from s1 import *\nv1\nv2\nimport main\nmain.main.v1\nfrom main import main as mm\nmm.v2\n'},
    'inherit-across': {'base.py': 'from derived import D\nclass B(D):\n    pass\nB().m\n',
                       'derived.py': 'from base import B\nclass D(B):\n    def m(self):\n        return B().m()\nD().m()\nD().other\n'},
}


def random_program(rng, k):
    """a definition graph with k nodes (variables, functions, classes); every node refers to arbitrary other nodes
    (assignment, call, inheritance, attribute, container edges), emitted twice so that backward references resolve"""
    kind = [rng.choice('vvfc') for _ in range(k)]
    name = ['%s%d' % (kind[i], i) for i in range(k)]

    def ref(inside=False):
        j = rng.randrange(k)
        e = name[j] + ('()' if kind[j] != 'v' and rng.random() < .7 else '')
        if inside and rng.random() < .4:
            e = rng.choice(['self.s', 'self.x', 'self.m()', 'self'])
        return rng.choice(['%s', '%s', '%s.x', '%s.s', '%s.m()', '[%s]', '[%s, 1][0]', '%s[0]', '(1, %s)[1]', '{"k": %s}["k"]',
                           '%s.p', '%s or ' + name[rng.randrange(k)]]) % e
    out = []
    for _ in range(2):
        for i in range(k):
            if kind[i] == 'v':
                out.append('%s = %s' % (name[i], ref()))
            elif kind[i] == 'f':
                deco = '@%s\n' % rng.choice([n for n, kd in zip(name, kind) if kd == 'f']) if rng.random() < .2 else ''
                body = rng.choice(['return %s', 'yield %s', 'yield from %s', 'return a or %s', 'return a(%s)']) % ref()
                out.append('%sdef %s(a=%s):\n    %s' % (deco, name[i], ref(), body))
            else:
                bases = ', '.join(rng.choice([n for n, kd in zip(name, kind) if kd != 'f'])
                                  for _ in range(rng.randrange(3)))
                extra = rng.choice(['', '    def __getattr__(self, n):\n        return %s\n' % ref(True),
                                    '    @property\n    def p(self):\n        return %s\n' % ref(True)])
                out.append('class %s(%s):\n    x = %s\n    def m(self):\n        self.s = %s\n        return %s\n%s'
                           % (name[i], bases, ref(), ref(True), ref(True), extra))
    out += ['%s%s' % (name[i], rng.choice(['', '.x', '().m()', '()', '[0]', '.s.p'])) for i in range(k)]
    code = '\n'.join(out) + '\n'
    compile(code, 'generated', 'exec')
    return code


def scaling_family(fam, n):
    r = range(1, n + 1)
    if fam == 'chain-assign':
        return 'x0 = 1\n' + ''.join('x%d = x%d\n' % (i, i - 1) for i in r) + 'r = x%d\nr' % n
    if fam == 'chain-call':
        return 'def f0():\n    return 1\n' + ''.join('def f%d():\n    return f%d()\n' % (i, i - 1) for i in r) + 'r = f%d()\nr' % n
    if fam == 'chain-inherit':
        return 'class C0:\n    x = 1\n' + ''.join('class C%d(C%d):\n    pass\n' % (i, i - 1) for i in r) + 'r = C%d()\nr = r.x\nr' % n
    if fam == 'diamond-assign':
        return 'a0 = 1\nb0 = ""\n' + ''.join('a%d = a%d or b%d\nb%d = b%d or a%d\n' % (i, i - 1, i - 1, i, i - 1, i - 1)
                                              for i in r) + 'r = a%d\nr' % n
    if fam == 'diamond-inherit':
        return 'class A0:\n    x = 1\nclass B0:\n    y = 1\n' + ''.join(
            'class A%d(A%d, B%d):\n    pass\nclass B%d(B%d, A%d):\n    pass\n' % (i, i - 1, i - 1, i, i - 1, i - 1)
            for i in r) + 'r = A%d()\nr = r.y\nr' % n
    if fam == 'diamond-attr':
        return 'class D:\n    def __init__(self):\n        self.a0 = 1\n        self.b0 = ""\n' + ''.join(
            '    def m%d(self):\n        self.a%d = self.a%d or self.b%d\n        self.b%d = self.b%d or self.a%d\n'
            % (i, i, i - 1, i - 1, i, i - 1, i - 1) for i in r) + 'r = D().a%d\nr' % n
    if fam == 'tree-call':
        return 'def f0():\n    return 1\n' + ''.join('def f%d():\n    return f%d() + f%d()\n' % (i, i - 1, i - 1)
                                                     for i in r) + 'r = f%d()\nr' % n
    if fam == 'tree-expr':
        return 'x0 = 1\n' + ''.join('x%d = [x%d, x%d][0] + (x%d, x%d)[1]\n' % ((i,) + (i - 1,) * 4) for i in r) + 'r = x%d\nr' % n
    raise ValueError(fam)


FAMILIES = ['chain-assign', 'chain-call', 'chain-inherit', 'diamond-assign', 'diamond-inherit', 'diamond-attr',
            'tree-call', 'tree-expr']
SCALE_KINDS = ['infer', 'complete', 'get_signatures']      # at `r`, after `r.`, after `r(`

# ------------------------------------------------------------------ worker process
CHILD = 'import sys, json; job = json.load(sys.stdin); sys.path.insert(0, job["repo"]); ' \
        'from standins.c15 import child; child(job)'


class _Hang(BaseException):
    pass


def child(job):
    import signal
    import jedi
    import parso
    jedi.settings.cache_directory = job['cache']
    env = jedi.InterpreterEnvironment()      # compiled objects in-process: no pipe to desynchronise on an abort
    calls, budget = [0], [float('inf')]

    def count(code, offset):
        calls[0] += 1
        if calls[0] > budget[0]:
            raise _Hang()               # propagates into the running query
    mon = sys.monitoring
    mon.use_tool_id(mon.PROFILER_ID, 'c15')
    mon.register_callback(mon.PROFILER_ID, mon.events.PY_START, count)

    mon.set_events(mon.PROFILER_ID, mon.events.PY_START)

    def on_timer(sig, frame):
        raise _Hang()
    signal.signal(signal.SIGVTALRM, on_timer)

    def watched(fn):
        """(status, result, work): status in ok | hang | RecursionError | exc:<type>"""
        calls[0], budget[0] = 0, LIMIT_CALLS
        try:
            signal.setitimer(signal.ITIMER_VIRTUAL, job['limit'])
            try:
                res = fn()
            finally:
                budget[0] = float('inf')        # first: the budget does not apply to the harness itself
                signal.setitimer(signal.ITIMER_VIRTUAL, 0)
            return 'ok', res, calls[0]
        except _Hang:
            n = calls[0]
            return 'hang', 'no result after %d Python calls (budget %d calls, %g s user CPU)' % (n, LIMIT_CALLS, job['limit']), n
        except BaseException as e:
            chain, x, frames, tb = [], e, [], e.__traceback__
            while x is not None and len(chain) < 10000:   # the whole chain: a re-raise per level makes it thousands long
                chain.append(x)
                x = x.__cause__ or x.__context__
            while tb is not None:
                co = tb.tb_frame.f_code
                frames.append('%s:%d %s' % (co.co_filename.split('/jedi/')[-1], tb.tb_lineno, co.co_name))
                tb = tb.tb_next
            text = '%s: %s; %d frames, innermost last: %s' % (type(e).__name__, str(e)[:100], len(frames), frames[-12:])
            if not any(isinstance(c, RecursionError) for c in chain) and 'maximum recursion depth' not in str(e):
                return 'exc:' + type(e).__name__, text, calls[0]
            loop = [f for f in frames if f.startswith('inference/value/klass.py') and f.endswith(' get_filters')]
            if len(loop) > 0.9 * len(frames):       # see ENV_ARTEFACT
                return 'env', text, calls[0]
            mid = [f.split(':')[0] + f[f.index(' '):] for f in frames[-400:-20]]
            return 'RecursionError', 'loop through %s | %s' % (sorted(set(mid), key=lambda f: -mid.count(f))[:4], text), calls[0]

    if job['mode'] == 'scale':
        out = {}
        for n in job['sizes']:
            code = scaling_family(job['family'], n)
            line = len(code.split('\n'))
            s = jedi.Script('warm = 1\nwarm.real\n' + code, environment=env)
            s.infer(2, 1), s.complete(2, 6)          # load builtins etc. outside the measurement
            out[n] = {}
            for kind in job['kinds']:
                s = jedi.Script(code + {'infer': '', 'complete': '.', 'get_signatures': '('}[kind], environment=env,
                                path=os.path.join(job['root'], 'scale_%s.py' % kind))
                st, res, work = watched(lambda: getattr(s, kind)(line, 2 * (kind != 'infer')))
                out[n][kind] = [st, work, res if st != 'ok' else len(res)]
            if any(v[0] == 'hang' for v in out[n].values()):
                break
        print('C15-CHILD ' + json.dumps(out))
        return

    path, code = job['path'], job['code']
    project = jedi.Project(job['root'])
    queries = []                    # (kind, line, col) in a fixed order
    leaf = parso.parse(code).get_first_leaf()
    while leaf is not None:
        (l, c), (el, ec) = leaf.start_pos, leaf.end_pos
        if leaf.type == 'name':
            queries += [(k, l, c) for k in ('infer', 'goto', 'goto_follow', 'help', 'get_references', 'references_file',
                                            'get_context', 'get_signatures')] + [('complete', el, ec)]
        elif leaf.type == 'operator' and leaf.value in '.(':
            queries.append(('complete' if leaf.value == '.' else 'get_signatures', el, ec))
        leaf = leaf.get_next_leaf()
    queries.append(('get_names', 1, 0))
    if job.get('max_queries') and len(queries) > job['max_queries']:
        queries = sorted(random.Random(job['seed']).sample(queries, job['max_queries']), key=queries.index)
    rot = job['seed'] % 9
    res = {'evaluations': 0, 'nontrivial': 0, 'max_work': 0, 'problems': [], 'resume': None, 'total': len(queries),
           'slowest': [0, '']}

    def call(s, kind, l, c):
        if kind == 'goto_follow':
            return s.goto(l, c, follow_imports=True, follow_builtin_imports=True)
        if kind == 'references_file':
            return s.get_references(l, c, scope='file')
        if kind == 'get_names':
            return s.get_names(all_scopes=True, definitions=True, references=True)
        return getattr(s, kind)(l, c)
    todo = [job['only']] if job.get('only') is not None else range(job.get('start', 0), len(queries))
    script, at, done, blind = None, None, set(), set()
    for qi in todo:
        kind, l, c = queries[qi]
        if (l * 31 + c) % job['parts'] != job['part'] and job.get('only') is None:
            continue                     # a long file is shared between several workers, by position
        if (l, c) in blind and job.get('only') is None:
            continue                     # ENV_ARTEFACT seen here: the other kinds of query would only hit it again
        if at != (l, c) or (qi + rot) % 4 == 0:      # mostly one Script per position, sometimes a cold one
            script, at = jedi.Script(code, path=path, project=project, environment=env), (l, c)
        steps = [(kind, lambda: call(script, kind, l, c))]
        while steps:
            label, fn = steps.pop(0)
            t0 = time.process_time()
            st, r, work = watched(fn)
            res['slowest'] = max(res['slowest'], [round(time.process_time() - t0, 2), '%s @%d:%d -> %s' % (kind, l, c, label)])
            res['evaluations'] += 1
            res['max_work'] = max(res['max_work'], work)
            if st != 'ok':
                res['problems'].append({'status': st, 'query': qi, 'what': '%s @%d:%d -> %s' % (kind, l, c, label),
                                        'detail': r})
                if st == 'hang':
                    break
                if st == 'env':          # same for the other follow-ups on this definition
                    blind.update([(l, c)] if label == kind else [])
                    steps = [x for x in steps if not x[0].startswith(label.split('.')[0] + '.')]
                continue
            res['nontrivial'] += bool(r)
            if label == kind:        # follow-ups, once per file for the same definition and kind of result
                user = [d for d in (r if isinstance(r, list) else [r]) if not d.name.startswith('__') and d.name in code][:3]
                for i, d in enumerate(user):
                    key = (kind in ('infer', 'help', 'goto_follow'), kind == 'complete', d.name, d.line, d.column)
                    if key in done and job.get('only') is None:
                        continue
                    done.add(key)
                    names = FOLLOW if kind != 'get_signatures' else ['docstring', 'to_string']
                    steps += [('%s[%d].%s()' % (kind, i, f), getattr(d, f)) for f in names if hasattr(d, f)]
                    steps.append(('%s[%d].full_name/description/type' % (kind, i),
                                  lambda d=d: (d.full_name, d.description, d.type)))
        if res['problems'] and res['problems'][-1]['status'] == 'hang':
            res['resume'] = qi + 1       # the process state is not trustworthy after an asynchronous abort
            break
    print('C15-CHILD ' + json.dumps(res))


# ------------------------------------------------------------------ parent
def _spawn(job, wall):
    here = os.path.dirname(os.path.dirname(os.path.abspath(__file__)))
    p = subprocess.run([sys.executable, '-c', CHILD], input=json.dumps(job), capture_output=True, text=True,
                       timeout=wall, env=dict(os.environ, PYTHONPATH=here, PYTHONHASHSEED='0'))
    lines = [x for x in p.stdout.splitlines() if x.startswith('C15-CHILD ')]
    if not lines:
        raise RuntimeError('C15 worker failed (exit %s): %s' % (p.returncode, p.stderr[-800:]))
    return json.loads(lines[-1][10:])


def run(repo, seed, tier):
    quick = tier == 'quick'
    tmp = os.environ['STANDIN_TMP']
    rng = random.Random(seed)
    base = {'repo': repo, 'limit': LIMIT_S, 'seed': seed, 'max_queries': 200 if quick else None}
    progs = []                      # (label, root, relpath, code)
    items = [(name, {'main.py': code}) for name, code in SINGLE.items()] + list(PROJECTS.items())
    sizes = [5, 8, 12, 16, 20, 24, 28, 32, 36, 40] if quick else [rng.randrange(3, 41) for _ in range(36)] + [40] * 4
    items += [('graph-%d-nodes#%d' % (k, i), {'main.py': random_program(rng, k)}) for i, k in enumerate(sizes)]
    for i, (name, files) in enumerate(items):
        root = os.path.join(tmp, 'c15_%d' % i)
        for rel, code in files.items():
            os.makedirs(os.path.dirname(os.path.join(root, rel)), exist_ok=True)
            with open(os.path.join(root, rel), 'w') as f:
                f.write(code)
        progs += [('%s:%s' % (name, rel), root, rel, code) for rel, code in files.items()]

    def job_for(i, **kw):
        label, root, rel, code = progs[i]
        return dict(base, mode='cycles', root=root, path=os.path.join(root, rel), code=code,
                    cache=os.path.join(tmp, 'cache_c15_%d_%d_%s' % (i, kw['part'], kw.get('only'))), **kw)

    def do_program(arg):
        i, part, nparts = arg
        parts, start = [], 0
        while start is not None:
            r = _spawn(job_for(i, start=start, part=part, parts=nparts), wall=3600)
            parts.append(r)
            start = r['resume'] if r['resume'] is not None and r['resume'] < r['total'] and len(parts) < MAX_HANGS else None
        return i, parts

    def do_family(arg):
        fam, kind = arg
        ns = list(range(1, 17)) + [18, 20, 22, 24] if quick else list(range(1, 65))
        return fam, _spawn(dict(base, mode='scale', family=fam, kinds=[kind], sizes=ns, root=tmp,
                                cache=os.path.join(tmp, 'cache_c15_%s_%s' % (fam, kind))), wall=3600)

    workers = max(2, min(16, (os.cpu_count() or 4)))
    with ThreadPoolExecutor(workers) as pool:
        fam_futs = [pool.submit(do_family, (fam, kind)) for fam in FAMILIES for kind in SCALE_KINDS]
        nparts = [min(6, 1 + len(p[3]) // 200) for p in progs]
        split = [(i, k, nparts[i]) for i in range(len(progs)) for k in range(nparts[i])]
        prog_results = list(pool.map(do_program, sorted(split, key=lambda a: -len(progs[a[0]][3]))))
        fam_results = [f.result() for f in fam_futs]

    violations, counts, other, grouped, evaluations, nontrivial, max_work, slowest = [], {}, {}, {}, 0, 0, 0, [0, '']

    def violation(label, inp, observed):
        counts[label] = counts.get(label, 0) + 1
        violations.append({'label': label, 'input': inp, 'observed': str(observed)[:600]})
        return violations[-1]
    for i, parts in prog_results:
        label, root, rel, code = progs[i]
        for r in parts:
            evaluations += r['evaluations']
            nontrivial += r['nontrivial']
            max_work, slowest = max(max_work, r['max_work']), max(slowest, r['slowest'] + [label])
            for pr in r['problems']:
                inp = 'file %s of program %s, query %s; source:\n%s' % (rel, label, pr['what'], code)
                if pr['status'] == 'hang':     # replay this single query alone, now that the pool is idle
                    again = _spawn(job_for(i, only=pr['query'], part=0, parts=1), wall=3600)
                    if any(p2['status'] == 'hang' for p2 in again['problems']):
                        violation(HANG, inp, pr['detail'])
                elif pr['status'] == 'RecursionError':      # one entry per file and recursion loop, with a count
                    key = (i, pr['detail'].split(' | ')[0])
                    if key not in grouped:
                        grouped[key] = [violation('query raised RecursionError', inp, pr['detail']), pr['detail'], 0]
                    grouped[key][2] += 1
                    counts['query raised RecursionError'] = counts['query raised RecursionError'] + (grouped[key][2] > 1)
                else:
                    other[pr['status']] = other.get(pr['status'], 0) + 1
    for v, detail, n in grouped.values():
        v['observed'] = ('%d queries on this file fail like this; first: %s' % (n, detail))[:600]
    scale_sample = {}
    for fam, table in fam_results:
        w = {}
        for n, per in sorted(table.items(), key=lambda kv: int(kv[0])):
            for kind, (st, work, detail) in per.items():
                evaluations += 1
                nontrivial += st == 'ok' and bool(detail)
                inp = 'scaling family %s, n=%s, query %s at the last use; source:\n%s' % (
                    fam, n, kind, scaling_family(fam, int(n))[:300])
                if st == 'hang':                 # replay this size alone
                    again = _spawn(dict(base, mode='scale', family=fam, kinds=[kind], sizes=[int(n)], root=tmp,
                                        cache=os.path.join(tmp, 'cache_c15_again')), wall=3600)
                    if again[n][kind][0] == 'hang':
                        violation(HANG, inp, detail)
                elif st == 'RecursionError':
                    violation('query raised RecursionError', inp, detail)
                elif st != 'ok':
                    other[st] = other.get(st, 0) + 1
                else:
                    w.setdefault(kind, {})[int(n)] = work
        for kind, ws in w.items():
            scale_sample['%s/%s' % (fam, kind)] = [ws[n] for n in sorted(ws) if n in (1, 2, 4, 8, 16, 24, 32, 64)]
            for n in sorted(ws):        # the first offending n per family and query
                if 2 * n in ws and ws[2 * n] > 8 * ws[n] + CONST:
                    violation('work grows faster than polynomially: work(2n) > 8 * work(n) + C',
                              'scaling family %s, query %s, n=%d' % (fam, kind, n),
                              'work(%d)=%d, work(%d)=%d; series %s' % (n, ws[n], 2 * n, ws[2 * n], sorted(ws.items())))
                    break
            for n in sorted(ws):
                run4 = [ws.get(n + j) for j in range(5)]
                if None not in run4 and run4[4] - run4[0] > FLOOR and all(run4[j + 1] >= 1.8 * run4[j] for j in range(4)):
                    violation('work grows exponentially: it (nearly) doubles per +1 in n over four consecutive sizes',
                              'scaling family %s, query %s, n=%d..%d' % (fam, kind, n, n + 4), 'work %s' % run4)
                    break
    return {'name': 'C15.cycles-and-scaling', 'contract': 'C15.returns-bounded',
            'evaluations': evaluations, 'distinct_nontrivial': nontrivial,
            'rule': '%d hand-written self-referential programs (cyclic assignment, recursion, self/cyclic/factory inheritance, '
                    'self-containing containers, recursive decorators/properties/generators/__getattr__/dunders, metaclass '
                    'cycles), %d on-disk import-cycle projects (every file queried), %d seeded random definition graphs with '
                    'cycles (<= 40 nodes): at every name/dot/paren: infer, goto (+follow_imports), help, get_references '
                    '(project+file), get_context, get_signatures, complete, get_names and Name follow-ups (%s) on the first 3 '
                    'results%s; 8 scaling families (chains, diamonds, trees) n=1..%d x 3 queries (infer, complete, '
                    'get_signatures on the result). Oracle: each query returns within %d Python calls and %g s user CPU (a hang is replayed alone), no '
                    'RecursionError (also wrapped); other exceptions are C01 matter and only counted; work = Python '
                    'calls per query: work(2n) <= 8*work(n)+%d and no 4 consecutive ~doublings (ratio >= 1.8, total growth > 30000). Most work in a cycle '
                    'query: %d calls; slowest: %s' % (len(SINGLE), len(PROJECTS), len(sizes), ', '.join(FOLLOW),
                                         ' (quick: at most 200 sampled positions x kinds per file)' if quick else '',
                                         24 if quick else 64, LIMIT_CALLS, LIMIT_S, CONST, max_work, slowest),
            'samples': [{'program': progs[0][0], 'source': progs[0][3][:200]},
                        {'program': progs[-1][0], 'source': progs[-1][3][:200]},
                        {'work(n) for n in 1,2,4,8,16,24,(32,64)': dict(list(scale_sample.items())[:6])}],
            'not_reported': dict(other, **{'env means': ENV_ARTEFACT}),
            'violations': violations[:50], 'violation_counts': counts}
