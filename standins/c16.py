"""C16 bounded stand-in: the same query on the same text and project gives the same ordered results in child processes
that differ in PYTHONHASHSEED and heap layout, and on ONE Script a query repeated after other (also failing) queries
gives what it gave the first time and what a fresh Script on the same text gives."""
import glob
import itertools
import json
import os
import random
import re
import subprocess
import sys
from concurrent.futures import ThreadPoolExecutor

CHILD = ('import sys; a = sys.argv; sys.path.insert(0, a[1]); '
         'from standins.c16 import worker; worker(a[1], a[2], int(a[3]))')
EXTRA_MODULES = ['decimal', 'fractions', 'csv', 'email.message', 'xml.dom.minidom', 'argparse', 'statistics', 'sqlite3']
UNORDERED = ('goto', 'help')        # help() hands back goto()'s list, whose order the property leaves open
LBL_PROC = 'result differs between processes (hash seed / allocation perturbation)'
LBL_AGAIN = 'asking the same query again on the same Script gives a different result'
LBL_FRESH = 'query on a Script that answered other queries before differs from a fresh Script on the same text'

HIER = '''class A:
    shared = 1
    def m(self, a): return 1
class B:
    shared = 'x'
    def m(self, b, c): return 'x'
    def only_b(self): return self
class C(B, A):
    def m(self, *args): return [1]
class D(A, B):
    pass
def pick(flag):
    if flag:
        return A()
    elif flag.other:
        return B()
    return C
if unknown:
    x = A()
elif unknown2:
    x = B()
else:
    x = D()
try:
    y = A
except ValueError:
    y = B
except KeyError:
    y = A()
else:
    y = pick
r = pick(0)
res = x.m(1)
v = x.shared
for e in [A(), B(), C(), A, 1, 'one', 2.0]:
    e
y
D().m
if 0:
    w = 'never'
else:
    w = 1
w
acc = 0
for i in [1, 2.0, 'three']:
    acc += i
    i
acc
'''
DICTS = '''d1 = {1: 'a', 'a': 1, "b": 2, 'long key': 0}
d2 = {1.0: 'b', 3: 3, "a": 4, 'b"c': 5, 2: 0, "long key": 1}
if unknown:
    d = d1
else:
    d = d2
item = d['a']
'''
HELPER = '''def make(x):
    def inner(first, second=x):
        return first
    return inner
def deco(f):
    def wrapped(alpha, beta=3):
        return f(alpha, beta)
    return wrapped
@deco
def helper(alpha, beta=3):
    return make(alpha)(beta)
''' + ''.join('c%d = make(%d)(helper(%d, 1))\n' % (i, i, i) for i in range(12)) + 'last = helper(c0, c1)\n'
STARS = {'s1.py': 'dup = 1\nonly1 = 1\ndef fn(a): return a\n', 's2.py': "dup = 'x'\nonly2 = 2\ndef fn(a, b): return b\n",
         's3.py': 'dup = 2.0\nfrom s1 import fn\nclass dupc: pass\n',
         'user1.py': 'import s1\ns1.fn(1)\nfrom s2 import fn\nfn(1, 2)\n', 'user2.py': 'from s1 import fn as g\ng(3)\n',
         'main.py': 'from s1 import *\nfrom s2 import *\nfrom s3 import *\nimport s1, s2\ndup\nfn(1)\ns1.fn\n'
                    'both = [s1, s2]\nboth[0].fn\nz = dup\n'}


def at(code, needle, delta=0, nth=0):
    i = -1
    for _ in range(nth + 1):
        i = code.index(needle, i + 1)
    i += delta
    return code.count('\n', 0, i) + 1, i - (code.rfind('\n', 0, i) + 1)


def q(kind, code, needle, delta=0, nth=0, **kw):
    line, col = at(code, needle, delta, nth)
    return [kind, line, col, kw]


def sources(root):
    """hand-written programs: [{'name', 'dir', 'path', 'code', 'queries'}]; files are written under root"""
    out = []

    def add(name, code, queries, files=None):
        d = os.path.join(root, name)
        os.makedirs(d, exist_ok=True)
        for rel, text in dict(files or {}, **{'main.py': code}).items():
            os.makedirs(os.path.dirname(os.path.join(d, rel)), exist_ok=True)
            with open(os.path.join(d, rel), 'w') as f:
                f.write(text)
        bad = [['infer', 10 ** 6, 0, {}], ['complete', 1, 10 ** 4, {}], ['get_references', 1, 0, {'scope': 'nowhere'}]]
        out.append({'name': name, 'dir': d, 'path': os.path.join(d, 'main.py'), 'code': code, 'queries': queries + bad})

    c = HIER + 'x.'
    add('hier', c, [
        q('infer', c, 'x.m(1)'), q('infer', c, 'y\n'), q('infer', c, 'r = '), q('infer', c, 'v = '),
        q('infer', c, '    e\n', 4),
        q('infer', c, 'res = '), q('infer', c, '\nw\n', 1), q('infer', c, '\nacc\n', 1), q('infer', c, '    i\n', 4),
        q('goto', c, 'x.m(1)', 2), q('help', c, 'x.m(1)', 2), q('get_signatures', c, 'x.m(1)', 4),
        q('goto', c, 'x.shared', 2), q('goto', c, 'D().m', 4), q('goto', c, 'def m(self, *args)', 4),
        q('complete', c, 'x.', 2, nth=c.count('x.') - 1), q('get_references', c, 'shared = 1'),
        q('get_references', c, 'def m(self, a)', 4, scope='file'), q('get_context', c, 'return [1]'),
        ['get_names', None, None, {'all_scopes': True, 'definitions': True, 'references': True}],
        ['search', 'm', None, {'all_scopes': True}], ['search', 'class A', None, {}]])
    for tail in ('d[', "d['", 'd["', 'd[1', "d['lo", 'd1["'):
        c = DICTS + tail
        add('dict' + str(len(out)), c, [['complete', c.count('\n') + 1, len(tail), {}], q('infer', c, 'item'),
                                        q('get_signatures', c, tail, len(tail), nth=c.count(tail) - 1)])
    c = HELPER
    sites = [q('get_signatures', c, 'make(%d)(' % i, 8 + len(str(i))) for i in range(12)]
    sites += [q('get_signatures', c, 'helper(%d, ' % i, 9 + len(str(i))) for i in (0, 5, 11)]
    add('helper', c, sites + [q('infer', c, 'c%d = ' % i) for i in (0, 7, 11)] + [q('infer', c, 'last = ')])
    c = STARS['main.py'] + 'z.'
    add('stars', c, [q('infer', c, 'dup\n'), q('goto', c, 'dup\n'), q('goto', c, 'fn(1)', follow_imports=True),
                     q('infer', c, 'fn(1)'), q('get_signatures', c, 'fn(1)', 3), q('get_references', c, 'fn(1)'),
                     q('get_references', c, 's1.fn', 3), q('infer', c, 'both[0].fn', 8), q('help', c, 'both[0].fn', 8),
                     q('get_signatures', c, 'both[0].fn', 8), ['complete', c.count('\n') + 1, 2, {}],
                     q('complete', c, 'both[0].fn', 9), ['get_names', None, None, {'all_scopes': True}],
                     ['search', 'both', None, {}]], files=STARS)
    dirs = {n: os.path.join(root, 'syspath', 'dir_' + n) for n in 'ABCD'}
    files = {'dir_%s/samename.py' % n: 'origin_%s = %r\ndef fn(%s): return %r\n' % (n, n, ', '.join('abcd'[:i + 1]), n)
             for i, n in enumerate('ABCD')}
    files['dir_C/only_c.py'] = 'import samename\nvalue = samename.fn\n'
    c = ('import sys\nsys.path.append(%r)\nsys.path.insert(0, %r)\nsys.path.append(%r)\nsys.path = [%r, %r]\n'
         'import samename\nfrom samename import fn\nimport only_c\nfn(\nonly_c.value\nsamename.' %
         (dirs['A'], dirs['B'], dirs['C'], dirs['D'], dirs['A']))
    add('syspath', c, [q('infer', c, 'import samename', 8), q('goto', c, 'import samename', 8, follow_imports=True),
                       q('goto', c, 'import fn', 8), q('help', c, 'import fn', 8), q('get_signatures', c, 'fn(\n', 3),
                       q('infer', c, 'only_c.value', 8), q('get_references', c, 'import fn', 8),
                       ['complete', c.count('\n') + 1, 9, {}], q('complete', c, 'import samename', 10)], files=files)
    # deep but finite programs: answers that hit an inference limit, or fail with RecursionError, in between
    for name, expr in [('paren%d' % n, '(' * n + '1' + ')' * n) for n in (296, 297, 298)] + [
            ('minus297', '-' * 297 + '1'), ('list147', '[' * 147 + '1' + ']' * 147 + '[0]' * 147)]:
        add(name, 'x = %s\ny = x\nz = y\n' % expr, [['infer', 1, 0, {}], ['infer', 2, 0, {}], ['infer', 3, 0, {}]])
    c = 'a0 = 1\n' + ''.join('a%d = a%d\n' % (i, i - 1) for i in range(1, 200))
    add('chain', c, [['infer', n + 1, 0, {}] for n in (199, 100, 60, 20)])
    return out



def corpus(repo, rng, n_files, n_pos):
    """a sample of the repository's own completion corpus at sampled identifier positions, all query kinds"""
    d = os.path.join(repo, 'test', 'completion')
    out = []
    for path in sorted(rng.sample(sorted(glob.glob(os.path.join(d, '*.py'))), n_files)):
        with open(path, encoding='utf-8') as f:
            code = f.read()
        idents = [(li + 1, m.start(), m.end()) for li, l in enumerate(code.split('\n'))
                  if not l.lstrip().startswith('#') for m in re.finditer(r'[^\W\d]\w*', l.split('#')[0])]
        qs = [['get_names', None, None, {'all_scopes': True}]]
        for line, start, end in sorted(rng.sample(idents, min(n_pos, len(idents)))):
            qs += [['complete', line, end, {}], ['infer', line, start, {}], ['goto', line, start, {}],
                   ['help', line, start, {}], ['get_signatures', line, end, {}], ['get_context', line, start, {}],
                   ['get_references', line, start, {'scope': 'file'}]]
        out.append({'name': 'corpus/' + os.path.basename(path), 'dir': d, 'path': path, 'code': code, 'queries': qs,
                    'corpus': True})
    return out


def digest(kind, res):
    rows = []
    for d in ([res] if kind == 'get_context' else res):
        row = [d.name, d.type, str(d.module_path) if d.module_path else None, d.line, d.column, d.description]
        if kind == 'complete':
            row += [d.complete, d.name_with_symbols]
        if kind == 'get_signatures':
            row += [d.to_string(), d.index, list(d.bracket_start)]
        rows.append(row)
    return sorted(rows, key=repr) if kind in UNORDERED else rows


def ask(script, query):
    kind, a, b, kw = query
    try:
        if kind == 'get_names':
            res = script.get_names(**kw)
        elif kind == 'search':
            res = list(script.search(a, **kw))
        else:
            res = getattr(script, kind)(a, b, **kw)
        return digest(kind, res)
    except Exception as e:      # an outcome like any other (run() decides which ones are admissible where)
        return 'EXC:' + type(e).__name__


def worker(repo, payload_path, perturb):
    """child process: perturb the heap, then run every session = the listed queries on ONE new Script"""
    keep = [__import__(m) for m in EXTRA_MODULES[:perturb % (len(EXTRA_MODULES) + 1)]]
    junk = [[object(), [i], {i: i}, (i,) * (i % 9), 'x' * (i % 70), bytearray(i % 300), type('T', (), {})()]
            for i in range(perturb * 1500)]
    keep.append(junk[::perturb % 5 + 2])        # free most of it again: holes of many sizes in the allocator's pools
    del junk
    with open(payload_path) as f:
        payload = json.load(f)
    import jedi
    jedi.settings.cache_directory = os.path.join(os.path.dirname(payload_path), 'cache')
    order = payload['sessions'][::-1] if perturb % 2 else payload['sessions']     # odd: sessions in reverse order
    out = []
    for n, (si, session) in enumerate(order):
        src = payload['sources'][si]
        keep.append([[] for _ in range((n * perturb) % 29)])
        script = jedi.Script(src['code'], path=src['path'], project=jedi.Project(src['dir']))
        out.append([ask(script, src['queries'][qi]) for qi in session])
    print(json.dumps(out[::-1] if perturb % 2 else out))


def sessions_of(src, rng, quick):
    nq = len(src['queries'])
    if src.get('corpus'):       # per sampled position: the 7 kinds twice on one Script (+ get_names around them)
        return [[0] + list(range(i, i + 7)) * 2 + [0] for i in range(1, nq, 7)]
    ss = [[i] for i in range(nq)]                                   # a fresh Script per query: the reference
    real = nq - 3
    if real <= 4:               # every order of the non-failing queries, then the first one again
        ss += [list(p) + [p[0]] for p in itertools.permutations(range(real))][::3 if quick and real > 3 else 1]
    for _ in range(1 if real <= 4 else (4 if quick else 24)):       # first, up to 8 others with repetitions, first again
        first = rng.randrange(real)
        ss.append([first] + [rng.randrange(nq) for _ in range(rng.randint(1, 8))] + [first])
    if real > 4:                # after one query of each kind (also a failing one): every query of the program
        kinds = {}
        for i, qu in enumerate(src['queries']):
            kinds.setdefault(qu[0] if i < real else 'failing', i)
        ss += [[i] + list(range(real)) for k, i in sorted(kinds.items()) if k not in ('infer', 'goto', 'get_context')]
    if src['name'] == 'helper':                                     # 12 call sites of one function in a row, both ways
        ss += [list(range(12)) + [0], list(range(11, -1, -1)) + [11], [0] * 9]
    return ss


def run(repo, seed, tier):
    rng = random.Random(seed)
    quick = tier == 'quick'
    root = os.path.join(os.environ['STANDIN_TMP'], 'c16')
    srcs = sources(root) + corpus(repo, rng, 5 if quick else 16, 6 if quick else 14)
    variants = [(0, 0), (1, 3), (12345, 8)] if quick else [(0, 0), (1, 3), (2, 8), (12345, 5), (1000 + seed % 1000, 14),
                                                          (4294967295, 1)]
    ngroups = 8
    groups = [[] for _ in range(ngroups)]       # all sessions of one source go to one group of child processes
    for si, src in enumerate(srcs):
        groups[si % ngroups] += [(si, s) for s in sessions_of(src, rng, quick)]
    here = os.path.dirname(os.path.dirname(os.path.abspath(__file__)))

    def child(task):
        g, (hashseed, perturb) = task
        pdir = os.path.join(root, 'job_%d_%d' % (g, hashseed))
        os.makedirs(pdir)
        with open(os.path.join(pdir, 'payload.json'), 'w') as f:
            json.dump({'sources': srcs, 'sessions': groups[g]}, f)
        p = subprocess.run([sys.executable, '-c', CHILD, repo, os.path.join(pdir, 'payload.json'), str(perturb)],
                           capture_output=True, text=True, timeout=1500, cwd=pdir,
                           env=dict(os.environ, PYTHONPATH=here, PYTHONHASHSEED=str(hashseed)))
        try:
            return json.loads(p.stdout.strip().splitlines()[-1])
        except Exception:
            raise RuntimeError('worker failed (group %d, hash seed %d): %s' % (g, hashseed, p.stderr[-800:]))

    tasks = [(g, v) for g in range(ngroups) for v in variants]
    with ThreadPoolExecutor(max_workers=14) as ex:
        answers = dict(zip(tasks, ex.map(child, tasks)))

    violations, counts, samples, nontrivial, reported = [], {}, [], set(), set()
    evaluations = 0

    def report(label, src, session, pos, detail):
        label += ' [%s]' % src['queries'][session[pos]][0]
        counts[label] = counts.get(label, 0) + 1
        if len(violations) < 50 and (label, src['name'], session[pos]) not in reported:     # one example per query
            reported.add((label, src['name'], session[pos]))
            code = src['code'] if len(src['code']) < 700 else src['code'][:300] + ' ... ' + src['code'][-150:]
            violations.append({'label': label, 'observed': detail[:700],
                               'input': 'source %s = %r; ONE Script(code, path=%r, project=Project(%r)) asked in this order '
                               '%r; differing answer: #%d' % (src['name'], code, src['path'], src['dir'],
                                                              [src['queries'][i] for i in session], pos)})

    def internal(r):            # an exception other than the documented ValueError for bad arguments
        return isinstance(r, str) and r != 'EXC:ValueError'

    for g in range(ngroups):
        fresh_at = {(si, s[0]): k for k, (si, s) in enumerate(groups[g]) if len(s) == 1}
        for k, (si, session) in enumerate(groups[g]):
            src = srcs[si]
            got = {v: answers[(g, v)][k] for v in variants}
            evaluations += len(session) * len(variants)
            base = got[variants[0]]
            nontrivial.update((si, qi) for qi, r in zip(session, base) if r and isinstance(r, list))
            if len(samples) < 3 and len(session) > 2 and si % 4 == 0 and all(x['source'] != src['name'] for x in samples):
                samples.append({'source': src['name'], 'session': [src['queries'][i][:3] for i in session],
                                'first answer': base[0][:2]})
            # how far the session is comparable: in corpus files an internal exception is an artefact of the empty
            # typeshed here and leaves the Script in an unspecified state; hand-written programs must not have any
            # (except the RecursionError the 'chain' program is made for)
            upto = {v: next((i + 1 for i, r in enumerate(got[v]) if internal(r)), len(session)) for v in variants}
            if not src.get('corpus'):
                odd = [(v, r) for v in variants for r in got[v] if internal(r)
                       and not (src['name'] == 'chain' and r == 'EXC:RecursionError')]
                if odd:
                    raise RuntimeError('unexpected exception in hand-written program %s: %r' % (src['name'], odd[:3]))
                upto = dict.fromkeys(variants, len(session))
            for v in variants[1:]:
                for pos in range(min(upto[v], upto[variants[0]])):
                    if got[v][pos] != base[pos]:
                        a, b = diff(base[pos], got[v][pos])
                        report(LBL_PROC, src, session, pos, 'PYTHONHASHSEED=%d perturbation=%d: %s\nPYTHONHASHSEED=%d '
                               'perturbation=%d: %s' % (variants[0] + (a,) + v + (b,)))
                        break
            for v in variants:                  # one Script: repeated answers, and fresh-Script answers
                seen, bad = {}, None
                for pos, qi in enumerate(session[:upto[v]]):
                    first = seen.setdefault(qi, pos)
                    fresh = got[v][pos]
                    if len(session) > 1 and (si, qi) in fresh_at:
                        fresh = answers[(g, v)][fresh_at[(si, qi)]][0]
                    if got[v][pos] != got[v][first]:
                        bad = (LBL_AGAIN, 'answer #%d' % first, got[v][first])
                    elif got[v][pos] != fresh:
                        bad = (LBL_FRESH, 'fresh Script', fresh)
                    if bad:
                        a, b = diff(got[v][pos], bad[2])
                        report(bad[0], src, session, pos, 'PYTHONHASHSEED=%d perturbation=%d; answer #%d: %s; %s: %s'
                               % (v + (pos, a, bad[1], b)))
                        break
                if bad:
                    break                       # one report per session is enough
    nhand = sum(1 for s in srcs if not s.get('corpus'))
    return {'name': 'C16.seeds-heaps-histories', 'contract': 'C16.determinism',
            'evaluations': evaluations, 'distinct_nontrivial': len(nontrivial),
            'rule': '%d hand-written programs (union of branch definitions, multiple inheritance, dict-key unions, 12 call '
                    'sites of a nested helper, star imports of one name from 3 modules, sys.path changed 4 times with 4 '
                    'same-named modules, 5 programs at the 300-inferences limit, a 200-assignment chain whose last name '
                    'fails with RecursionError) and %d sampled files of test/completion at sampled identifiers; every '
                    'query kind (complete, infer, goto, help, get_signatures, get_references, get_names, get_context, '
                    'search, 3 calls failing with ValueError); %d child processes per source = (PYTHONHASHSEED, heap '
                    'perturbation; odd = sessions in reverse order) %r. Oracles: ordered digests (name, type, path, line, '
                    'column, description, completion text, signature string and index; goto/help as sets) agree across '
                    'processes; on one Script a repeated query repeats its answer, and every answer equals that of a '
                    'fresh Script in the same process (sessions: first, <=8 random others, first again; all orders of '
                    'small programs; 12 consecutive get_signatures; per corpus position all kinds twice)'
                    % (nhand, len(srcs) - nhand, len(variants), variants),
            'samples': samples, 'violations': violations, 'violation_counts': counts}


def diff(a, b):
    """the first rows in which two digests differ"""
    if isinstance(a, list) and isinstance(b, list):
        for i in range(max(len(a), len(b))):
            x, y = (a[i] if i < len(a) else None), (b[i] if i < len(b) else None)
            if x != y:
                return ('row %d of %d: %r' % (i, len(a), x), 'row %d of %d: %r' % (i, len(b), y))
    return (repr(a)[:300], repr(b)[:300])
