"""C17 bounded stand-in: positions reported by the real API are faithful to the text.

Generated programs (user-defined functions / classes / literals only, no dependence on typeshed) x layouts
(LF / CRLF / CR / mixed line ends, tab / 2 / 4 / 8 space indentation, form feeds, unicode identifiers incl. non-BMP,
backslash and bracket continuation lines, decorators, multi-target assignments, doctest code in docstrings, no final
newline, broken tails) x ways of handing the text to jedi (no path, path with identical / stale file on disk, path only,
bytes in a declared encoding) x a small project on disk (helper module, package, a file that is only reachable by the
text search; legacy encodings with coding cookie, BOM) x edit sequences on the same path x all query methods.
Oracles: the text itself (own physical-line splitter), the stdlib tokenizer, ast contexts, tokenize.detect_encoding."""
import ast
import io
import keyword
import os
import random
import re
import tokenize
import traceback
import unicodedata

# ----------------------------------------------------------------------------------------------------------------
# fixed corpus (kept from the first version of this stand-in)
CORPUS = [
    'import os\nfrom sys import path as p\n\ndef func(a, b=1, *args, key, **kw):\n    total = a + b\n    counts = {}\n'
    '    counts[key] = total\n    counts[key] += 1\n    return total, counts\n\nclass Klass(object):\n    attr = 3\n'
    '    def meth(self, x):\n        self.items = [x]\n        self.items[0] = x\n        return self.items\n\n'
    'val = func(1, key=2)\nk = Klass()\nk.meth(val)\n',
    'x = 1\r\ny = x + 1\r\ndef f(z):\r\n    return z + y\r\nf(x)\r\n',
    'if True:\n\tfirst = 1\n\tsecond = \\\n\t\tfirst + 1\n\x0c\nthird = (first,\n         second)\n',
    'größe = 1\nnaïve = größe + 1\ndef überzug(wert):\n    return wert * naïve\nüberzug(größe)\n',
    'for i, (j, k) in enumerate([(1, 2)]):\n    print(i, j, k)\nwith open(__file__) as fh, open(__file__) as gh:\n    pass\n'
    'try:\n    pass\nexcept Exception as exc:\n    print(exc)\nlam = lambda q, r=2: q + r\nsq = [n * n for n in range(3) if n]\n'
    'data = {}\ndata["a"] = 1\ndel data\n(w := 5)\nprint(w)',
    'a = 1; b = a\nc = a if b else a\n',
]

# ----------------------------------------------------------------------------------------------------------------
# program generator.  Placeholders: $a..$n fresh identifiers, $v $w existing module level values, $K an existing
# class, $C an existing call expression.  'vals' / 'classes' / 'calls' export what later blocks may use.
TEMPLATES = [
    dict(name='simple', text='$a = 1\n$b = $a + $v\n', vals='a b'),
    dict(name='multi_target', text='$a = $b = $v\n$c, $d = $a, $b\n($e, ($f, $g)) = ($c, ($d, 3))\n$h, *$i = [$e, $f, $g]\n'
                                   '[$j, $k] = $c, $d\n', vals='a c e h'),
    dict(name='continuation', text='$a = \\\n    $v + \\\n        1\n$b = ($a,\n      $v,\n)\nif $a and \\\n        $b:\n'
                                   '    $c = $a\n$d = [\n    $a,\n        $b]; $e = \\\n$d\n', vals='a b d'),
    dict(name='setitem', text='$a = {}\n$a[$v] = 1\n$a[$v] += 2\n$b = [$v, $w]\n$b[0], $c = $b[1], $a\n$b[0:1] = [$c]\n',
         vals='a b c'),
    dict(name='func_all_params',
         text='def $a($b, $c=1, *$d, $e, **$f):\n    """Summary $b.\n\n    >>> $g = $a(1, $e=2)\n    >>> $h = $g\n    >>> $g\n\n'
              '    Example::\n\n        $i = $a(2, $e=3)\n        $i\n\n    Also `$a` and `$b\n    """\n'
              '    $j = $b + $c\n    return $j, $d, $e, $f\n',
         calls=['$a(1, 2, 3, $e=4, zz=5)', '$a($v, $e=$w)']),
    dict(name='func_posonly_annot',
         text='def $a($b: $K, $c: "$K" = None, /, $d: int = 0, *, $e: $K = None) -> $K:\n    return $b\n',
         calls=['$a($v, 1, $d=2)']),
    dict(name='decorators',
         text='def $a($b):\n    return $b\n\ndef $c(*$d, **$e):\n    def $f($g):\n        return $g\n    return $f\n\n'
              '@$a\n@$c(1,\n    $h=2)\ndef $i($j):\n    return $j\n\n@$a\nclass $k($K):\n    @$c($v)\n    def $l(self):\n'
              '        pass\n',
         calls=['$i(1)', '$c(1, 2)'], classes='k'),
    dict(name='klass',
         text='class $a($K):\n    """Doc of `$a`.\n\n    >>> $h = $a(1)\n    >>> $h.$c\n    """\n    $b = 3\n\n'
              '    def __init__(self, $d, *$e):\n        self.$c = $d\n        self.$f = [$d]\n        self.$f[0] = $d\n\n'
              '    @property\n    def $g(self):\n        return self.$c\n\n    @staticmethod\n    def $i($j, $k=2):\n'
              '        return $j\n\n    class $l:\n        $m = 1\n\n$n = $a(1, 2)\n$n.$c = $n.$g\n',
         vals='n', classes='a', calls=['$a(1, 2)', '$a.$i(1, $k=3)', '$n.$i(4)']),
    dict(name='control_flow',
         text='for $a, ($b, $c) in [(1, (2, 3))]:\n    $d = $a + $b + $c\nelse:\n    $d = 0\nwhile $d:\n    $d -= 1\n'
              'with $C as $e, $C as ($f, $g):\n    pass\ntry:\n    $h = $v\nexcept (ValueError, TypeError) as $i:\n'
              '    $h = $i\nexcept Exception as $j:\n    raise\nfinally:\n    del $h\n', vals='a d'),
    dict(name='comprehension_lambda_walrus',
         text='$a = lambda $b, $c=2, *$d, **$e: $b + $c\n$f = [$g * $g for $g in range(3) if $g]\n'
              '$h = {$i: $j for $i, $j in zip($f, $f)}\n$k = [($l, $m) for $l in $f for $m in $f if $l if $m]\n'
              'if ($n := $v):\n    print($n)\n', vals='f h k n', calls=['$a(1, $c=3)']),
    dict(name='global_nonlocal',
         text='$a = 0\ndef $b():\n    global $a\n    $a = 1\n    $c = 2\n    def $d():\n        nonlocal $c\n        $c = 3\n'
              '        return $c\n    return $d\n', vals='a', calls=['$b()']),
    dict(name='imports',
         text='import os\nimport os.path as $a\nfrom sys import path as $b, argv\nfrom os import (sep,\n'
              '                linesep as $c)\n$d = $a.join(sep, $c)\n', vals='b c d'),
    dict(name='semicolons', text='$a = 1; $b = $a\n$c = $a if $b else $v\n$d = $c; print($d)\n', vals='a b c d'),
    dict(name='strings_comments',
         text='$a = \'not $b here\'  # comment $c = 1\n$d = """multi\n$e = 2\n"""  # $f\n# $g = $a\n'
              '$h = f"{$a} and {$d:>{$v}} {$w!r}"\n$i = (\'$a\'\n      "$d")\n', vals='a d h'),
    dict(name='async',
         text='async def $a($b):\n    async with $b as $c:\n        pass\n    async for $d in $b:\n        await $d\n'
              '    return [$e async for $e in $b]\n', calls=['$a($v)']),
    dict(name='call_before_def', text='def $a($b):\n    return $c($b, 2, $e=3)\n',
         late='def $c($d, $f=1, *$g, $e=None, **$h):\n    return $d\n', calls=['$c(1, $e=2)', '$a(1)']),
    dict(name='forward_class', text='def $a($b):\n    $i = $c($b)\n    return $i.$d($b, 1)\n',
         late='class $c:\n    def __init__(self, $e):\n        self.$e = $e\n    def $d(self, $f, $g=0, *$h):\n'
              '        return $f\n', calls=['$c(1).$d(2, $g=3)', '$a(1)'], classes='c'),
    dict(name='star_calls', text='$a = ($v,)\n$b = {\'k\': $w}\n$c = $C\nprint(*$a, **$b)\n$d = $C if $C else $C\n',
         vals='a b c d'),
    dict(name='annotated', text='$a: int = 1\n$b: "$K"\n$c: $K = $v\n', vals='a c'),
    dict(name='multiline_def',
         text='def $a(\n        $b,\n        $c=(1,\n            2),\n        *$d,\n        **$e\n):\n    return ($b,\n'
              '            $c)\n', calls=['$a(1,\n   2,\n   $f=3)']),
    dict(name='methods',
         text='class $a:\n    def $b(self, $c):\n        return self.$d($c)\n    def $d(self, $e, *$f):\n        return $e\n'
              '$g = $a()\n$h = $g.$b(1)\n', vals='g h', classes='a', calls=['$g.$b(1)', '$g.$d(1, 2)']),
    dict(name='main_guard', text='if __name__ == \'__main__\':\n    $a = __file__\nelif $v:\n    $a = None\nelse:\n    $a = 0\n',
         vals='a'),
    dict(name='redefinition', text='$a = 1\n$a = $a + 1\ndef $a($b):\n    return $b\n$c = $a\nclass $a:\n    $b = $c\n',
         vals='c'),
    dict(name='odd_spacing', text='$a  =  (  $v  )\n$b=$a\n$c\t=\t$b\t+ $a\n$d = $a . real\n$e = $C . real . imag\n'
                                  '$f = [ $a,$b ,$c ]\n', vals='a b c f'),
    dict(name='soft_keywords', text='match = $v\ncase = match\n_ = case\ntype = _\n$a = type\n', vals='a'),
    dict(name='nested_functions',
         text='def $a($b):\n    def $c($d):\n        def $e($f=$b):\n            return $b + $d + $f\n        return $e\n'
              '    $g = $c($b)\n    return $g()\n', calls=['$a(1)']),
    dict(name='attr_targets', text='class $a:\n    $b = None\n$c = $a()\n$c.$b = $a()\n$c.$b.$b = $v\n$d = $c.$b.$b\n'
                                   'del $c.$b.$b\n', vals='c d', classes='a'),
]
BROKEN_TAILS = ['$v.', '$a = $C[', 'def $a(', '$a = = $v', 'class :', '$a = ($v,', 'for $a in', 'print($v, $b=']

ID_POOLS = {
    'ascii': ['alpha', 'beta', 'gamma_x', 'Delta', 'eps2', 'zeta_', '_eta', 'theta', 'iota_long_name', 'kap', 'lam_b',
              'mu', 'nu9', 'xi'],
    'latin': ['größe', 'naïve', 'überzug', 'café', 'señal', 'wert', 'ärger', 'œuvre', 'łódź', 'élan', 'ça', 'ýmir',
              'ñandú', 'tâche'],
    'cyrillic': ['переменная', 'значение', 'функция', 'класс', 'имя', 'счёт', 'ключ', 'данные', 'строка', 'число', 'икс',
                 'игрек', 'объект', 'метод'],
    'cjk': ['变量', '数值', '函数', '类别', '名字', '计数', '键', '数据', '字符串', '数字', '甲', '乙', '对象', '方法'],
    'astral': ['\U00020000a', '\U00020001', 'b\U0002a6d6', '\U00020b9f_x', 'c\U00020000\U00020001', '\U0002a700q',
               '\U00020002', 'd\U00020003', '\U00020004e', '\U00020005', 'f\U00020006', '\U00020007g', '\U00020008',
               'h\U00020009'],
}
FLAVOURS = ['ascii', 'latin', 'cyrillic', 'cjk', 'astral', 'mixed']
for _pool in ID_POOLS.values():
    for _id in _pool:
        if unicodedata.normalize('NFKC', _id) != _id or not _id.isidentifier():
            raise RuntimeError('identifier pool entry %r is not a NFKC-stable identifier' % _id)


class Ids:
    def __init__(self, rng, flavour):
        self.rng, self.flavour, self.used = rng, flavour, set(['match', 'case', 'type', '_', 'zz', 'k'])

    def new(self):
        for _ in range(1000):
            pool = ID_POOLS[self.rng.choice(sorted(ID_POOLS)) if self.flavour == 'mixed' else self.flavour]
            base = self.rng.choice(pool)
            cand = base if base not in self.used else '%s%d' % (base, self.rng.randrange(1, 99))
            if cand not in self.used and cand.isidentifier() and not keyword.iskeyword(cand):
                self.used.add(cand)
                return cand
        raise RuntimeError('identifier pool exhausted')


def _instantiate(text, ctx, mapping):
    def sub(m):
        ch = m.group(1)
        if ch in 'vw':
            return ctx['rng'].choice(ctx['vals']) if ctx['vals'] else '1'
        if ch == 'K':
            return ctx['rng'].choice(ctx['classes']) if ctx['classes'] else 'object'
        if ch == 'C':
            return ctx['rng'].choice(ctx['calls']) if ctx['calls'] else 'len([])'
        if ch not in mapping:
            mapping[ch] = ctx['ids'].new()
        return mapping[ch]
    return re.sub(r'\$([a-nvwKC])', sub, text)


def generate_program(rng, flavour, n_blocks, header=None, broken=False):
    """-> (blocks, late_blocks): lists of LF texts; every block starts at column 0 of a top level statement"""
    ctx = dict(rng=rng, ids=Ids(rng, flavour), vals=[], classes=[], calls=[])
    blocks, late = [], []
    if header:
        blocks.append(header['text'])
        ctx['vals'] += header['vals']
        ctx['classes'] += header['classes']
        ctx['calls'] += header['calls']
    for t in rng.sample(TEMPLATES, n_blocks):
        mapping = {}
        blocks.append(_instantiate(t['text'], ctx, mapping))
        if 'late' in t:
            late.append(_instantiate(t['late'], ctx, mapping))
        ctx['vals'] += [mapping[c] for c in t.get('vals', '').split()]
        ctx['classes'] += [mapping[c] for c in t.get('classes', '').split()]
        new_calls = [_instantiate(c, ctx, mapping) for c in t.get('calls', [])]
        ctx['calls'] += [c for c in new_calls if '\n' not in c]
        if new_calls:
            v = ctx['ids'].new()
            blocks.append('%s = %s\n' % (v, rng.choice(new_calls)))
            ctx['vals'].append(v)
    blocks += late
    if broken:
        blocks.append(_instantiate(rng.choice(BROKEN_TAILS), ctx, {}) + '\n')
    return blocks, ctx


def apply_layout(blocks, rng, layout):
    """join the blocks into one text under the layout: indentation unit, form feeds / blank lines between the top
    level blocks, line ends, final newline"""
    parts = []
    for i, b in enumerate(blocks):
        if i:
            r = rng.random()
            if layout['formfeed'] and r < 0.35:
                parts.append('\x0c\n')
            elif layout['formfeed'] and r < 0.55:
                b = '\x0c' + b
            elif r < 0.75:
                parts.append(rng.choice(['\n', '\n\n', '    \n', '\t\n', '# comment %s = 1\n' % rng.choice(['alpha', 'x'])]))
        parts.append(b)
    text = ''.join(parts)
    unit = layout['indent']
    lines = text.split('\n')
    out = []
    for ln in lines:
        m = re.match(r'(?:    )+', ln)
        if m and unit != '    ':
            ln = unit * (len(m.group(0)) // 4) + ln[len(m.group(0)):]
        out.append(ln)
    text = '\n'.join(out)
    if not layout['final_newline']:
        text = text.rstrip('\n')
    nl = layout['newline']
    if nl == 'mixed':
        text = re.sub('\n', lambda m: rng.choice(['\n', '\r\n', '\r']), text)
    elif nl != '\n':
        text = text.replace('\n', nl)
    return text


def random_layout(rng):
    return dict(indent=rng.choice(['    ', '\t', '  ', '        ', '    ']),
                newline=rng.choice(['\n', '\n', '\r\n', '\r', 'mixed']),
                final_newline=rng.random() < 0.5,
                formfeed=rng.random() < 0.5)


# ----------------------------------------------------------------------------------------------------------------
# oracles
_LINE_RE = re.compile(r'[^\r\n]*(?:\r\n|\r|\n)|[^\r\n]+\Z')


def physical_lines(text):
    """Python's physical lines (terminated by LF, CR LF or CR; nothing else ends a line), line ends kept"""
    lines = _LINE_RE.findall(text)
    if ''.join(lines) != text:
        raise RuntimeError('line splitter lost text')
    return lines


def to_lf(text):
    return text.replace('\r\n', '\n').replace('\r', '\n')


def tokens_of(text):
    """(all tokens, complete?) of the stdlib tokenizer on the LF form of the text.  An error at EOF (open bracket,
    broken tail) keeps the tokens seen so far; any other tokenizer error is a harness problem."""
    toks = []
    try:
        for tok in tokenize.generate_tokens(io.StringIO(to_lf(text)).readline):
            toks.append(tok)
    except tokenize.TokenError as e:
        if 'EOF' not in str(e):
            raise RuntimeError('tokenizer oracle failed: %r on %r' % (e, text[-80:]))
        return toks, False
    except (SyntaxError, IndentationError) as e:
        raise RuntimeError('tokenizer oracle failed: %r on %r' % (e, text))
    return toks, True


def identifier_tokens(toks, lines):
    """[(line, col, string)] of identifier tokens, and the set of positions of f-string conversion characters (the
    tokenizer calls `r` in f'{x!r}' a NAME, but it is no identifier)"""
    out, conversions = [], set()
    depth = 0
    for i, tok in enumerate(toks):
        if tok.type == getattr(tokenize, 'FSTRING_START', -1):
            depth += 1
        elif tok.type == getattr(tokenize, 'FSTRING_END', -1):
            depth -= 1
        if tok.type == tokenize.NAME and not keyword.iskeyword(tok.string):
            if depth and i and toks[i - 1].type == tokenize.OP and toks[i - 1].string == '!' \
                    and toks[i - 1].end == tok.start:
                conversions.add((tok.start[0], tok.start[1]))
                continue
            if lines[tok.start[0] - 1][tok.start[1]:tok.start[1] + len(tok.string)] != tok.string:
                raise RuntimeError('tokenizer oracle and line splitter disagree at %r' % (tok,))
            out.append((tok.start[0], tok.start[1], tok.string))
    return out, conversions


def binding_oracle(text, toks, lines):
    """{(line, col): True/False} for the identifier tokens whose binding status the ast decides: Store contexts,
    parameters, def/class names, import aliases, `as` targets bind; Load contexts, keyword argument names, dotted import
    parts do not.  del targets, global/nonlocal lists and bare annotations stay undecided."""
    lf = to_lf(text)
    tree = ast.parse(lf)
    lf_lines = lf.split('\n')
    res, undecided = {}, set()

    def ccol(lineno, byteoff):
        return len(lf_lines[lineno - 1].encode('utf-8')[:byteoff].decode('utf-8'))

    sig = [t for t in toks if t.type not in (tokenize.NL, tokenize.COMMENT, tokenize.NEWLINE, tokenize.INDENT,
                                             tokenize.DEDENT)]
    index = {t.start: i for i, t in enumerate(sig)}
    for n in ast.walk(tree):
        if isinstance(n, ast.AnnAssign) and n.value is None:
            for m in ast.walk(n.target):
                if isinstance(m, (ast.Name, ast.Attribute)):
                    undecided.add((m.end_lineno, ccol(m.end_lineno, m.end_col_offset)))
    for n in ast.walk(tree):
        if isinstance(n, ast.Name):
            key = (n.lineno, ccol(n.lineno, n.col_offset))
            if isinstance(n.ctx, ast.Del):
                undecided.add(key)
            else:
                res[key] = isinstance(n.ctx, ast.Store)
        elif isinstance(n, ast.arg):
            res[(n.lineno, ccol(n.lineno, n.col_offset))] = True
        elif isinstance(n, ast.keyword) and n.arg is not None:
            res[(n.lineno, ccol(n.lineno, n.col_offset))] = False
        elif isinstance(n, ast.Attribute):
            end = (n.end_lineno, ccol(n.end_lineno, n.end_col_offset))
            key = (end[0], end[1] - len(n.attr))
            if key in index and sig[index[key]].string == n.attr:
                if isinstance(n.ctx, ast.Del):
                    undecided.add(key)
                else:
                    res[key] = isinstance(n.ctx, ast.Store)
        elif isinstance(n, (ast.FunctionDef, ast.AsyncFunctionDef, ast.ClassDef)):
            i = index[(n.lineno, ccol(n.lineno, n.col_offset))]
            while sig[i].string not in ('def', 'class'):
                i += 1
            if sig[i + 1].string != n.name:
                raise RuntimeError('binding oracle lost the name of %s' % n.name)
            res[sig[i + 1].start] = True
        elif isinstance(n, (ast.Import, ast.ImportFrom)):
            for al in n.names:
                if al.name == '*':
                    continue
                i = index[(al.lineno, ccol(al.lineno, al.col_offset))]
                parts = al.name.split('.')
                for k, part in enumerate(parts):
                    if sig[i + 2 * k].string != part:
                        raise RuntimeError('binding oracle lost import part %s' % part)
                    res[sig[i + 2 * k].start] = (al.asname is None and k == 0 and
                                                 (isinstance(n, ast.Import) or len(parts) == 1))
                if al.asname is not None:
                    j = i + 2 * len(parts)
                    if sig[j - 1].string != 'as' or sig[j].string != al.asname:
                        raise RuntimeError('binding oracle lost import alias %s' % al.asname)
                    res[sig[j].start] = True
            if isinstance(n, ast.ImportFrom):
                i = index[(n.lineno, ccol(n.lineno, n.col_offset))] + 1
                while sig[i].string != 'import':
                    if sig[i].type == tokenize.NAME:
                        res[sig[i].start] = False
                    i += 1
        elif isinstance(n, ast.ExceptHandler) and n.name is not None:
            i = index[(n.lineno, ccol(n.lineno, n.col_offset))]
            while sig[i].string != ':':
                i += 1
            if sig[i - 1].string != n.name or sig[i - 2].string != 'as':
                raise RuntimeError('binding oracle lost except target %s' % n.name)
            res[sig[i - 1].start] = True
    for i, t in enumerate(sig):
        if t.type == tokenize.NAME and t.string in ('global', 'nonlocal'):
            j = i + 1
            while j < len(sig) and sig[j].start[0] == t.start[0] and sig[j].string not in (';',):
                undecided.add(sig[j].start)
                j += 1
    for key in undecided:
        res.pop(key, None)
    # lines of the top level statements that start with a form feed (parso counts the form feed as indentation)
    ff_lines = set()
    for node in tree.body:
        first = min([node.lineno] + [d.lineno for d in getattr(node, 'decorator_list', [])])
        if lf_lines[first - 1].startswith('\x0c'):
            ff_lines.update(range(first, node.end_lineno + 1))
    return res, ff_lines


def decode_source_file(path):
    """text of a python file as Python itself reads it (PEP 263 cookie / BOM)"""
    with open(path, 'rb') as f:
        raw = f.read()
    # Python reads source lines with universal newlines; io.BytesIO.readline would only split at LF
    byte_lines = iter(re.findall(rb'[^\r\n]*(?:\r\n|\r|\n)|[^\r\n]+\Z', raw))
    enc, _ = tokenize.detect_encoding(lambda: next(byte_lines, b''))
    return raw.decode(enc)


# ----------------------------------------------------------------------------------------------------------------
STALE_SIG_LABEL = ('get_signatures returns a Signature of the previous buffer of the same path '
                   '(cursor on a later line than the opening bracket)')
FF_LABEL = 'is_definition() is wrong in a statement that starts with a form feed'


class Collector:
    def __init__(self, ident):
        self.ident = ident
        self.violations = []
        self.counts = {}
        self.kinds = {}
        self.evaluations = 0
        self.query_errors = 0
        self.checked_results = 0
        self.foreign_results = 0

    def add(self, label, kind, inp, observed):
        self.counts[label] = self.counts.get(label, 0) + 1
        k = (label, kind)
        self.kinds[k] = self.kinds.get(k, 0) + 1
        if self.kinds[k] <= 3:
            self.violations.append({'label': label, 'input': repr((self.ident,) + tuple(inp)), 'observed': observed,
                                    '_kind': kind})


class _Relabel:
    """a collector view that files the position violations of one result under one other (known) label"""

    def __init__(self, col, label):
        self.__dict__.update(_col=col, _label=label)

    def add(self, label, kind, inp, observed):
        self._col.add(label if label == 'attribute raised' else self._label, kind, inp, label + ': ' + observed)

    def __getattr__(self, name):
        return getattr(self._col, name)

    def __setattr__(self, name, value):
        setattr(self._col, name, value)


class Step:
    """one text handed to jedi in one way; knows how to check any returned object against the text it points into"""

    def __init__(self, jedi, col, text, path, project, how, file_texts, snippet, note=''):
        self.jedi, self.col, self.text, self.path, self.how, self.note = jedi, col, text, path, how, note
        self.lines = physical_lines(text)
        self.file_texts = file_texts      # {path: text} cache of decoded disk files
        self.snippet = snippet
        kw = {}
        if project is not None:
            kw['project'] = project
        if how == 'nopath':
            self.script = jedi.Script(text, **kw)
        elif how == 'interpreter':
            self.script = jedi.Interpreter(text, [{}], **kw)
        elif how == 'path_only':
            self.script = jedi.Script(path=path, **kw)
        elif how.startswith('bytes:'):
            self.script = jedi.Script(text.encode(how[6:]) if how[6:] != 'utf-8-sig' else
                                      b'\xef\xbb\xbf' + text.encode('utf-8'), path=path, **kw)
        else:
            self.script = jedi.Script(text, path=path, **kw)
        self.own_module_name = None
        self.asked = []       # (kind, line, column, text in front of the position)
        self.ff_lines = set()

    def desc(self, *more):
        return (self.how + self.note,) + more

    def target_lines(self, r):
        """physical lines of the text the object claims to point into, or None when it points nowhere we can read"""
        mp = r.module_path
        if mp is None:
            if self.path is None or self.how in ('nopath', 'interpreter'):
                if r.in_builtin_module():
                    return None
                if self.own_module_name is None:
                    self.own_module_name = self.script.get_context(1, 0).module_name
                if r.module_name == self.own_module_name:
                    return self.lines
            return None
        mp = str(mp)
        if self.how not in ('nopath', 'interpreter') and self.path is not None \
                and os.path.abspath(mp) == os.path.abspath(self.path):
            return self.lines
        if not mp.endswith('.py') or not os.path.isfile(mp):
            return None
        if mp not in self.file_texts:
            self.file_texts[mp] = physical_lines(decode_source_file(mp))
        self.col.foreign_results += 1
        return self.file_texts[mp]

    def check(self, r, query, pos, binding=None, relabel=None):
        col = _Relabel(self.col, relabel) if relabel else self.col
        col.evaluations += 1
        kind = query
        inp = self.desc(query, pos, self.snippet(pos))
        try:
            line, column, name = r.line, r.column, r.name
            if line is None:
                return
            lines = self.target_lines(r)
            if lines is None:
                return
            where = 'buffer' if lines is self.lines else os.path.basename(str(r.module_path))
            if not (1 <= line <= len(lines)) or column is None or column < 0:
                if r.type == 'module' and (line, column) == (1, 0):
                    return       # an empty module
                col.add('text at (line, column) is not the name', kind, inp,
                        repr((name, where, line, column, 'no such line (%d lines)' % len(lines))))
                return
            line_text = lines[line - 1]
            col.checked_results += 1
            if line_text[column:column + len(name)] != name:
                if r.type == 'module' and (line, column) == (1, 0):
                    return       # a module as a whole, not one of its identifiers
                if name.isidentifier():
                    col.add('text at (line, column) is not the name', kind, inp,
                            repr((name, where, line, column, line_text)))
            glc = r.get_line_code()
            b, a = (line * 7 + column) % 3, (line + column) % 3
            want = ''.join(lines[max(line - 1 - b, 0):line + a])
            if glc == '\ufeff' + line_text and line == 1:
                # the file / byte buffer starts with a UTF-8 byte order mark; Python does not count it to the line
                col.add('get_line_code() keeps the byte order mark in front of the first line', kind, inp,
                        repr((name, where, line, glc, line_text)))
            elif glc != line_text:
                col.add('get_line_code() is not the line of the name', kind, inp,
                        repr((name, where, line, glc, line_text)))
            else:
                got = r.get_line_code(before=b, after=a)
                if got == '\ufeff' + want and line - 1 - b <= 0:
                    col.add('get_line_code() keeps the byte order mark in front of the first line', kind,
                            inp + ('before=%d after=%d' % (b, a),), repr((name, where, line, got, want)))
                elif got != want:
                    col.add('get_line_code() is not the line of the name', kind, inp + ('before=%d after=%d' % (b, a),),
                            repr((name, where, line, got, want)))
            try:
                st, en = r.get_definition_start_position(), r.get_definition_end_position()
            except Exception:
                # the end position asks for the inferred type of the name; a failing inference is C01's business
                col.query_errors += 1
                st = en = None
            if st is not None and en is not None:
                if not (st <= (line, column) and (line, column + len(name) if name.isidentifier() else column) <= en):
                    col.add('definition range does not enclose the name', kind, inp,
                            repr((name, where, line, column, st, en)))
                elif not (_in_text(st, lines) and _in_text(en, lines)):
                    col.add('definition range does not enclose the name', kind, inp,
                            repr((name, where, 'range outside the text', st, en)))
            if binding is not None and lines is self.lines and (line, column) in binding \
                    and hasattr(r, 'is_definition') and name.isidentifier() \
                    and line_text[column:column + len(name)] == name:
                if r.is_definition() != binding[(line, column)]:
                    col.add(FF_LABEL if line in self.ff_lines else 'is_definition() disagrees with what binds', kind, inp,
                            'name %r at %r: is_definition=%r, binds=%r; line %r'
                            % (name, (line, column), r.is_definition(), binding[(line, column)], line_text))
        except RecursionError:
            col.query_errors += 1
        except Exception:
            col.add('attribute raised', kind, inp, traceback.format_exc(limit=3))


def _in_text(pos, lines):
    """a (line, column) inside the text; (last line + 1, 0) is the end of a text that ends with a line break"""
    if 1 <= pos[0] <= len(lines):
        return 0 <= pos[1] <= len(lines[pos[0] - 1])
    return pos == (len(lines) + 1, 0) and (not lines or lines[-1][-1:] in ('\n', '\r'))


def _snippet_fn(lines):
    def snippet(pos):
        if isinstance(pos, tuple) and len(pos) >= 2 and isinstance(pos[0], int) and 1 <= pos[0] <= len(lines):
            return lines[pos[0] - 1]
        return ''
    return snippet


def check_text(jedi, col, rng, text, path, project, how, file_texts, budget, broken=False, note='', replay=()):
    """all checks of one text handed to jedi in one way"""
    lines = physical_lines(text)
    step = Step(jedi, col, text, path, project, how, file_texts, _snippet_fn(lines), note)
    s = step.script
    toks, complete = tokens_of(text)
    idents, conversions = identifier_tokens(toks, lines)
    binding = None
    if not broken:
        if not complete:
            raise RuntimeError('generated program does not tokenize: %r' % text)
        binding, step.ff_lines = binding_oracle(text, toks, lines)
    head = text[:60]

    # ---- get_names: each identifier token exactly once, is_definition exactly for what binds
    col.evaluations += 1
    try:
        names = s.get_names(all_scopes=True, definitions=True, references=True)
    except RecursionError:
        names = None
        col.query_errors += 1
    except Exception:
        col.add('get_names raised', 'get_names', step.desc(head), traceback.format_exc(limit=3))
        names = None
    if names is not None:
        got = sorted((n.line, n.column, n.name) for n in names)
        want = sorted(idents)
        conv_extra = [g for g in got if (g[0], g[1]) in conversions]
        got = [g for g in got if (g[0], g[1]) not in conversions]
        if conv_extra:
            col.add('get_names reports an f-string conversion character as an identifier', 'get_names',
                    step.desc(lines[conv_extra[0][0] - 1]), repr(conv_extra[:3]))
        if got != want and (complete or not broken):
            dup = sorted(set(g for g in got if got.count(g) > 1))
            col.add('get_names does not report each identifier token exactly once', 'get_names',
                    step.desc(head), 'extra %r missing %r duplicated %r'
                    % (sorted(set(got) - set(want))[:5], sorted(set(want) - set(got))[:5], dup[:5]))
        elif got != want:
            # broken tail: the tokenizer oracle stopped at the error; everything it saw must be there once
            miss = [w for w in want if got.count(w) != 1]
            if miss:
                col.add('get_names does not report each identifier token exactly once', 'get_names',
                        step.desc(head, 'broken tail'), 'not exactly once: %r' % miss[:5])
        for n in names:
            step.check(n, 'get_names', (n.line, n.column), binding)
        if binding is not None:
            for flags in (dict(definitions=True, references=False), dict(definitions=False, references=True)):
                col.evaluations += 1
                try:
                    sub = s.get_names(all_scopes=True, **flags)
                except Exception:
                    col.add('get_names raised', 'get_names', step.desc(head, sorted(flags.items())),
                            traceback.format_exc(limit=3))
                    continue
                subpos = set((n.line, n.column) for n in sub)
                wantdef = flags['definitions']
                wrong_in = sorted(p for p in subpos if p in binding and binding[p] != wantdef)
                wrong_out = sorted(p for p, v in binding.items() if v == wantdef and p not in subpos)
                ff = [p for p in wrong_in + wrong_out if p[0] in step.ff_lines]
                wrong_in = [p for p in wrong_in if p not in ff]
                wrong_out = [p for p in wrong_out if p not in ff]
                if ff:
                    col.add(FF_LABEL, 'get_names', step.desc(head, sorted(flags.items())),
                            'get_names(%s): wrongly included / left out %r; line %r'
                            % (sorted(flags.items()), ff[:4], lines[ff[0][0] - 1]))
                if wrong_in or wrong_out:
                    col.add('is_definition() disagrees with what binds', 'get_names',
                            step.desc(head, sorted(flags.items())),
                            'get_names(%s): wrongly included %r, wrongly left out %r; lines %r'
                            % (sorted(flags.items()), wrong_in[:4], wrong_out[:4],
                               [lines[p[0] - 1] for p in (wrong_in + wrong_out)[:2]]))
        col.evaluations += 1
        top = None
        try:
            top = s.get_names()
        except RecursionError:
            col.query_errors += 1
        except Exception:
            col.add('get_names raised', 'get_names', step.desc(head, 'all_scopes=False'), traceback.format_exc(limit=3))
        if top is not None:
            allpos = set((n.line, n.column) for n in names)
            toppos = [(n.line, n.column) for n in top]
            if len(set(toppos)) != len(toppos) or not set(toppos) <= allpos:
                col.add('get_names does not report each identifier token exactly once', 'get_names',
                        step.desc(head, 'all_scopes=False'), 'duplicates or positions that are no identifier: %r'
                        % sorted(set(p for p in toppos if toppos.count(p) > 1 or p not in allpos))[:5])
            for n in top:
                step.check(n, 'get_names()', (n.line, n.column), binding)
            for n in rng.sample(top, min(len(top), budget['sub'])):
                col.evaluations += 1
                try:
                    sub = n.defined_names()
                except Exception:       # includes RecursionError; totality is C01's business
                    col.query_errors += 1
                    continue
                for m in sub:
                    step.check(m, 'defined_names', (n.line, n.column), binding)
            for n in rng.sample(names, min(len(names), budget['sub'])):
                for q, fn in (('parent', lambda: [n.parent()]), ('Name.goto', n.goto), ('Name.infer', n.infer)):
                    col.evaluations += 1
                    try:
                        res = [r for r in fn() if r is not None]
                    except Exception:       # includes RecursionError; totality is C01's business
                        col.query_errors += 1
                        continue
                    for r in res:
                        step.check(r, q, (n.line, n.column), binding)

    def run_query(q, pos, fn):
        col.evaluations += 1
        try:
            res = list(fn())
        except Exception:                  # includes RecursionError; totality is C01's business
            col.query_errors += 1
            return []
        for r in res:
            step.check(r, q, pos, binding)
        return res

    def signatures(pos):
        col.evaluations += 1
        try:
            sigs = s.get_signatures(*pos)
        except Exception:
            col.query_errors += 1
            return
        for sg in sigs:
            bs = sg.bracket_start
            # known: the 3 s signature cache ignores the text when the cursor is on a later line than the bracket
            relabel = STALE_SIG_LABEL if note and bs[0] < pos[0] else None
            step.check(sg, 'get_signatures', pos, binding, relabel)
            if not (1 <= bs[0] <= len(lines)) or lines[bs[0] - 1][bs[1]:bs[1] + 1] != '(':
                col.add('signature bracket_start is not at an opening bracket', 'get_signatures',
                        step.desc('get_signatures', pos, lines[pos[0] - 1]), repr(bs))
            col.evaluations += 1
            try:
                params = sg.params
            except Exception:           # inference of the parameters failed; totality is C01's business
                col.query_errors += 1
                continue
            for p in params:
                step.check(p, 'get_signatures.params', pos, binding, relabel)

    def context(line, c):
        x = s.get_context(line, c)
        p = x.parent()
        return [x] + ([p] if p is not None else [])

    asks = {
        'goto': lambda l, c: run_query('goto', (l, c), lambda: s.goto(l, c)),
        'goto(follow_imports)': lambda l, c: run_query('goto(follow_imports)', (l, c), lambda: s.goto(
            l, c, follow_imports=True, follow_builtin_imports=True)),
        'infer': lambda l, c: run_query('infer', (l, c), lambda: s.infer(l, c)),
        'get_references': lambda l, c: run_query('get_references', (l, c), lambda: s.get_references(l, c)),
        'get_references(file)': lambda l, c: run_query('get_references(file)', (l, c),
                                                       lambda: s.get_references(l, c, scope='file')),
        'help': lambda l, c: run_query('help', (l, c), lambda: s.help(l, c)),
        'get_context': lambda l, c: run_query('get_context', (l, c), lambda: context(l, c)),
        'complete': lambda l, c: run_query('complete', (l, c), lambda: s.complete(l, c)),
        'complete(fuzzy)': lambda l, c: run_query('complete(fuzzy)', (l, c), lambda: s.complete(l, c, fuzzy=True)),
        'get_signatures': lambda l, c: signatures((l, c)),
    }

    def ask(kind, line, c):
        step.asked.append((kind, line, c, ''.join(lines[max(0, line - 3):line - 1]) + lines[line - 1][:c]))
        asks[kind](line, c)

    # ---- a later version of the same path: first of all ask again, at once, what was asked of the previous version
    # at the positions whose preceding text did not change (the rest of the text did)
    again = [(k, l, c) for (k, l, c, before) in replay
             if l <= len(lines) and ''.join(lines[max(0, l - 3):l - 1]) + lines[l - 1][:c] == before]
    again.sort(key=lambda a: a[0] != 'get_signatures')
    for (k, l, c) in again[:budget['replay']]:
        ask(k, l, c)

    # ---- positional queries on identifier tokens
    for (line, c0, string) in rng.sample(idents, min(len(idents), budget['tokens'])):
        c = c0 + rng.randrange(len(string))
        for kind in ('goto', 'goto(follow_imports)', 'infer', 'get_references', 'get_references(file)', 'help'):
            ask(kind, line, c)
    for (line, c0, string) in rng.sample(idents, min(len(idents), budget['sub'])):
        ask('get_context', line, c0)

    # ---- completion at positions inside every kind of identifier-like text (code, docstrings, comments, strings)
    words = []
    for li, ltext in enumerate(lines, 1):
        for m in re.finditer(r'[^\W\d]\w+', ltext):
            words.append((li, m.start(), m.end()))
        for m in re.finditer(r'\.(?=\s|\Z)', ltext):
            words.append((li, m.end(), m.end()))
    for (li, a, b) in rng.sample(words, min(len(words), budget['complete'])):
        c = b if a == b else rng.randrange(a + 1, b + 1)
        ask('complete(fuzzy)' if rng.random() < 0.25 else 'complete', li, c)

    # ---- search
    uniq = sorted(set(t[2] for t in idents))
    for string in rng.sample(uniq, min(len(uniq), budget['search'])):
        run_query('search', string, lambda: s.search(string, all_scopes=True))
        run_query('complete_search', string[:2], lambda: s.complete_search(string[:max(1, len(string) // 2)], all_scopes=True))

    # ---- signatures at the opening bracket / commas of calls (last, so that a following version asks again at once)
    calls = []
    for i, t in enumerate(toks):
        if t.type == tokenize.OP and t.string in ('(', ',') and i and t.start[0] <= len(lines):
            calls.append((t.start[0], t.start[1] + 1))
    for pos in (calls if len(calls) <= budget['signatures'] else rng.sample(calls, budget['signatures'])):
        ask('get_signatures', pos[0], pos[1])
    return step


# ----------------------------------------------------------------------------------------------------------------
# project on disk
ENCODINGS = ['utf-8'] * 6 + ['utf-8-sig'] + ['latin-1', 'gbk', 'cp1251', 'shift_jis'] * 2


def write_source(path, text, encoding, rng):
    """write text in the encoding (with a PEP 263 cookie when it is not utf-8); returns the text as Python reads it"""
    if encoding not in ('utf-8', 'utf-8-sig'):
        nl = re.search(r'\r\n|\r|\n', text)
        cookie = rng.choice(['# -*- coding: %s -*-', '# coding=%s', '# vim: set fileencoding=%s :']) % encoding
        text = cookie + (nl.group(0) if nl else '\n') + text
        try:
            raw = text.encode(encoding)
        except UnicodeEncodeError:
            raise RuntimeError('harness: text not encodable in %s' % encoding)
    elif encoding == 'utf-8-sig':
        raw = b'\xef\xbb\xbf' + text.encode('utf-8')
    else:
        raw = text.encode('utf-8')
    os.makedirs(os.path.dirname(path), exist_ok=True)
    with open(path, 'wb') as f:
        f.write(raw)
    back = decode_source_file(path)
    if back != text:
        raise RuntimeError('harness: file does not read back (%s)' % encoding)
    return text


def pick_encoding(rng, text):
    encs = []
    for e in ENCODINGS:
        try:
            if e in ('utf-8', 'utf-8-sig') or to_lf(text).encode(e).decode(e) == to_lf(text):
                encs.append(e)
        except (UnicodeEncodeError, UnicodeDecodeError):
            pass
    return rng.choice(encs)


LEGACY_PREFIX = {'gbk': "标记 = '中文字符串'; ", 'shift_jis': "印 = '日本語の文字列'; ", 'cp1251': "метка = 'строка текста'; ",
                 'latin-1': "marque = 'chaîne accentuée éèà'; ", 'utf-8': "étiquette = 'text – with — dashes'; ",
                 'utf-8-sig': "étiquette = 'ünï'; "}


def build_project(rng, root, flavour):
    """helper module + package + a loose file nobody imports.  -> header for the main program"""
    ids = Ids(rng, flavour if flavour != 'astral' else 'ascii')
    hf, hc, hv, hm, sf, sv, pv = (ids.new() for _ in range(7))
    modname = rng.choice(['helper_mod', 'hilfs_modul', 'util2'])
    pkgname = rng.choice(['pkg', 'paket_x'])
    lay = random_layout(rng)
    helper_blocks = [
        'def %s(%s, *%s, **%s):\n    """Doc.\n\n    >>> %s(1)\n    """\n    return %s\n' % (hf, 'p1', 'rest', 'kw', hf, 'p1'),
        'class %s:\n    %s = 1\n    def %s(self, q_arg, r_arg=2):\n        self.%s = q_arg\n        return self\n'
        % (hc, hv, hm, hv),
        '%s = \\\n    %s(1)\n' % (hv, hf),
    ]
    extra, _ = generate_program(rng, flavour if flavour != 'astral' else 'latin', 2)
    helper_text = apply_layout(helper_blocks + extra, rng, lay)
    enc = pick_encoding(rng, helper_text)
    write_source(os.path.join(root, modname + '.py'), helper_text, enc, rng)
    lay2 = random_layout(rng)
    init_text = apply_layout(['from .sub import %s\n' % sf, '%s = %s\n' % (pv, sf)], rng, lay2)
    write_source(os.path.join(root, pkgname, '__init__.py'), init_text, 'utf-8', rng)
    sub_blocks = ['from %s import %s\n' % (modname, hc),
                  'def %s(first_arg, second_arg=None, *more_args):\n    return %s()\n' % (sf, hc),
                  '%s = %s(1)\n' % (sv, sf)]
    sub_text = apply_layout(sub_blocks, rng, lay2)
    write_source(os.path.join(root, pkgname, 'sub.py'), sub_text, pick_encoding(rng, sub_text), rng)
    # a file that is found by the text search only; non-ASCII text in front of the names on the same line
    lenc = rng.choice(['gbk', 'shift_jis', 'cp1251', 'latin-1', 'utf-8', 'utf-8-sig'])
    pre = LEGACY_PREFIX[lenc]
    loose = ['from %s import %s, %s\n' % (modname, hf, hc), '%sres_a = %s(1)\n' % (pre, hf),
             '%sres_b = %s().%s(2)\n' % (pre, hc, hm), 'if res_a:\n    %sres_c = %s.%s\n' % (pre, hc, hv)]
    can = True
    try:
        ''.join(loose).encode(lenc if lenc != 'utf-8-sig' else 'utf-8')
    except UnicodeEncodeError:
        can = False
    loose_text = apply_layout(loose, rng, dict(random_layout(rng), formfeed=False))
    write_source(os.path.join(root, 'loose_%s.py' % rng.choice(['a', 'b'])), loose_text,
                 lenc if can else 'utf-8', rng)
    header_text = rng.choice([
        'from %s import %s, %s, %s\nimport %s.sub as sub_alias\nfrom %s import %s\n'
        % (modname, hf, hc, hv, pkgname, pkgname, pv),
        'from %s import (%s,\n    %s, %s)\nfrom %s.sub import %s as sub_alias, %s\nfrom %s import %s\n'
        % (modname, hf, hc, hv, pkgname, sf, sv, pkgname, pv),
    ])
    calls = ['%s(1, 2)' % hf, '%s().%s(3)' % (hc, hm), '%s(1, zz=2)' % pv]
    if 'sub as sub_alias' in header_text:
        calls.append('sub_alias.%s(1, 2)' % sf)
        uses = 'sub_alias.%s' % sv
    else:
        calls.append('sub_alias(1, 2)')
        uses = sv
    header_text += 'proj_val = %s\nproj_obj = %s()\nproj_res = proj_obj.%s(proj_val).%s\n' % (uses, hc, hm, hv)
    return dict(text=header_text, vals=[hv, 'proj_val', 'proj_res'], classes=[hc], calls=calls)


def edit_text(rng, blocks, layout, layout_seed):
    """a later version of the same program: lines inserted between top level blocks (same layout decisions)"""
    new = list(blocks)
    for _ in range(rng.randrange(1, 4)):
        i = rng.randrange(1, len(new) + 1) if len(new) > 1 else 1
        new.insert(i, rng.choice(['\n\n', '# inserted comment\n# second line\n', 'inserted_value = 0\n',
                                  '\n# x\n\n\n', 'def inserted_function(p):\n    return p\n']))
    if len(new) > 3 and rng.random() < 0.3:
        del new[rng.randrange(1, len(new) - 1)]
    return apply_layout(new, random.Random(layout_seed), layout)


# ----------------------------------------------------------------------------------------------------------------
BUDGETS = {
    'quick': dict(tokens=14, complete=22, signatures=16, search=3, sub=4, replay=60, scenarios=84, corpus_tokens=8),
    'thorough': dict(tokens=60, complete=80, signatures=60, search=10, sub=12, replay=300, scenarios=360, corpus_tokens=40),
}


def run_scenario(args):
    """worker: one generated program (+ project, + edit sequence) -> collector data"""
    repo, seed, tier, index, tmp = args
    import jedi
    rng = random.Random('%s/%s/%d' % (seed, tier, index))
    budget = BUDGETS[tier]
    root = os.path.join(tmp, 'scn_%d' % index)
    os.makedirs(root, exist_ok=True)
    jedi.settings.cache_directory = os.path.join(tmp, 'cache_%d' % index)       # not inside the project
    file_texts = {}
    if index < len(CORPUS):
        col = Collector('corpus[%d]' % index)
        b = dict(budget, tokens=budget['corpus_tokens'], complete=budget['corpus_tokens'])
        broken = False
        try:
            ast.parse(to_lf(CORPUS[index]))
        except SyntaxError:
            broken = True
        check_text(jedi, col, rng, CORPUS[index], None, jedi.Project(root), 'nopath', file_texts, b, broken=broken)
        sample, how, n_versions = CORPUS[index], 'nopath', 1
    else:
        flavour = rng.choice(FLAVOURS)
        how = rng.choice(['nopath', 'path_same', 'path_same', 'path_stale', 'path_only', 'bytes', 'interpreter'])
        with_project = rng.random() < 0.6
        broken = rng.random() < 0.2
        layout = random_layout(rng)
        n_blocks = rng.randrange(3, 7)
        header = build_project(rng, root, flavour) if with_project else None
        blocks, _ = generate_program(rng, flavour, n_blocks, header=header, broken=broken)
        layout_seed = rng.random()
        text = apply_layout(blocks, random.Random(layout_seed), layout)
        if not broken:
            try:
                ast.parse(to_lf(text))
            except SyntaxError as e:
                raise RuntimeError('harness: generated program is not valid python: %r\n%s' % (e, text))
        project = jedi.Project(root)     # always explicit: the default project would be the working directory
        path = None if how in ('nopath', 'interpreter') else os.path.join(root, rng.choice(['main_buf.py', 'модуль.py', 'a b.py']))
        enc = 'utf-8'
        if how in ('path_only', 'bytes'):
            enc = pick_encoding(rng, text)
        versions = [text]
        if path is not None and rng.random() < 0.6:
            versions.append(edit_text(rng, blocks, layout, layout_seed))
        col = Collector('scenario %d seed %s %s: %s ids, layout %r%s%s' % (
            index, seed, tier, flavour, sorted(layout.items()), ', project' if with_project else '',
            ', broken tail' if broken else ''))
        replay = ()
        for vi, vtext in enumerate(versions):
            h = how
            if os.environ.get('C17_DUMP'):      # debugging aid: keep the exact texts of the scenarios
                with open(os.path.join(os.environ['C17_DUMP'], 'scn_%d_v%d.txt' % (index, vi)), 'w', newline='') as f:
                    f.write(vtext)
            if how == 'path_same':
                write_source(path, vtext, 'utf-8', rng)
            elif how == 'path_stale' and vi == 0:
                # an unsaved buffer: the file keeps an older content through all versions of the buffer
                write_source(path, 'stale_line = 0\n\n' + vtext.replace('=', '= ', 3), 'utf-8', rng)
            elif how == 'path_only':
                vtext = write_source(path, vtext, enc, rng)
            elif how == 'bytes':
                if enc not in ('utf-8', 'utf-8-sig'):
                    vtext = write_source(path, vtext, enc, rng)
                h = 'bytes:' + enc
            step = check_text(jedi, col, rng, vtext, path, project, h, file_texts, budget, broken=broken,
                              note=' (after an edit of the same path)' if vi else '', replay=replay)
            replay = step.asked
        sample, n_versions = text, len(versions)
    return dict(violations=col.violations, counts=col.counts, evaluations=col.evaluations,
                query_errors=col.query_errors, checked=col.checked_results, foreign=col.foreign_results,
                sample=sample[:200], how=how + ('+edit' if n_versions > 1 else ''))


def run(repo, seed, tier):
    import multiprocessing
    import jedi  # noqa: F401  (imported before the fork so that every worker uses the tree under test)
    tier = tier if tier in BUDGETS else 'quick'
    tmp = os.environ.get('STANDIN_TMP')
    own_tmp = None
    if not tmp:
        import tempfile
        own_tmp = tmp = tempfile.mkdtemp(prefix='c17_', dir='/var/tmp')
    n = BUDGETS[tier]['scenarios']
    jobs = [(repo, seed, tier, i, tmp) for i in range(n)]
    workers = max(2, min(14, (os.cpu_count() or 4) - 2))
    try:
        ctx = multiprocessing.get_context('fork')
        with ctx.Pool(workers) as pool:
            results = pool.map(run_scenario, jobs, chunksize=1)
    finally:
        if own_tmp:
            import shutil
            shutil.rmtree(own_tmp, ignore_errors=True)
    violations, counts = [], {}
    ev = errs = checked = foreign = 0
    per_kind = {}
    hows = {}
    for r in results:
        hows[r['how']] = hows.get(r['how'], 0) + 1
        ev += r['evaluations']
        errs += r['query_errors']
        checked += r['checked']
        foreign += r['foreign']
        for k, v in r['counts'].items():
            counts[k] = counts.get(k, 0) + v
        for v in r['violations']:
            k = (v['label'], v.pop('_kind'))
            per_kind[k] = per_kind.get(k, 0) + 1
            if per_kind[k] <= 3 and len(violations) < 60:
                violations.append(v)
    return {'name': 'C17.positions', 'contract': 'C17.positions',
            'evaluations': ev, 'distinct_nontrivial': checked,
            'rule': '%d corpus texts + %d generated programs (3-6 random blocks out of %d statement templates: multi-target / '
                    'subscript / attribute assignments, all parameter kinds, decorators, classes, doctest code in docstrings, '
                    'continuation lines, comprehensions, lambda, walrus, imports, f-strings, async, call before def, soft '
                    'keywords; identifiers ascii / latin / cyrillic / cjk / non-BMP / mixed; layouts: LF, CRLF, CR, mixed line '
                    'ends, tab / 2 / 4 / 8 space indentation, form feeds, with and without final newline; 20%% with a broken '
                    'tail) handed to Script without path, to Interpreter, to Script with path (file identical / stale), path only, as bytes in a '
                    'declared encoding; 60%% inside a project on disk (helper module, package, a file only reachable by the '
                    'text search; utf-8, BOM, latin-1, gbk, cp1251, shift_jis with coding cookie); 60%% of the path scenarios '
                    'followed by an edited version of the same path (blocks inserted / removed) which first repeats at once '
                    'the queries of the first version at the positions whose preceding text is unchanged.  '
                    'Per text: get_names (all flag combinations), '
                    'defined_names, parent, Name.goto, Name.infer, and on seeded random samples of identifier tokens / word positions (also in '
                    'docstrings, comments, strings) / call brackets: goto, goto(follow_imports), infer, get_references (project '
                    'and file scope), help, get_context, complete (plain and fuzzy), get_signatures + params + bracket_start, '
                    'search, complete_search.  Every returned object that points into the buffer or a readable .py file is '
                    'checked: text at (line, column) == name, get_line_code(before, after) == those physical lines, definition '
                    'range encloses the name and lies in the text, is_definition() == ast binding status.  Oracles: the text '
                    '(own physical line splitter), stdlib tokenize, ast contexts, tokenize.detect_encoding for files.  '
                    '%d results checked (%d of them in other files), %d queries raised (ignored here, see C01); '
                    'texts per way of handing over: %s.'
                    % (len(CORPUS), n - len(CORPUS), len(TEMPLATES), checked, foreign, errs,
                       ', '.join('%s %d' % kv for kv in sorted(hows.items()))),
            'samples': [r['sample'] for r in results[len(CORPUS):len(CORPUS) + 2]],
            'violations': violations, 'violation_counts': counts}
