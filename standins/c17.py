"""C17 bounded stand-in: positions reported by the real API are faithful to the text (corpus with CRLF / CR / tabs /
form feeds / unicode identifiers / continuation lines / no final newline)."""
import ast
import io
import keyword
import os
import tokenize
import traceback

CORPUS = [
    'import os\nfrom sys import path as p\n\ndef func(a, b=1, *args, key, **kw):\n    total = a + b\n    counts = {}\n'
    '    counts[key] = total\n    counts[key] += 1\n    return total, counts\n\nclass Klass(object):\n    attr = 3\n'
    '    def meth(self, x):\n        self.items = [x]\n        self.items[0] = x\n        return self.items\n\n'
    'val = func(1, key=2)\nk = Klass()\nk.meth(val)\n',
    'x = 1\r\ny = x + 1\r\ndef f(z):\r\n    return z + y\r\nf(x)\r\n',
    'if True:\n\tfirst = 1\n\tsecond = \\\n\t\tfirst + 1\n\x0c\nthird = (first,\n         second)\n',
    'größe = 1\nnaïve = größe + 1\ndef überzug(wert):\n    return wert * naïve\nüberzug(größe)\n',
    'for i, (j, k) in enumerate([(1, 2)]):\n    print(i, j, k)\nwith open(__file__) as fh, open(__file__) as gh:\n    pass\n'
    'try:\n    pass\nexcept Exception as exc:\n    print(exc)\nlam = lambda q, r=2: q + r\nsq = [n * n for n in range(3) if n]\n'
    'data = {}\ndata["a"] = 1\ndel data\n(w := 5)\nprint(w)',
    'a = 1; b = a\nc = a if b else a\n',
]


def name_tokens(code):
    out = []
    try:
        for tok in tokenize.generate_tokens(io.StringIO(code).readline):
            if tok.type == tokenize.NAME and not keyword.iskeyword(tok.string) or \
                    tok.type == tokenize.NAME and tok.string in ('print',):
                out.append((tok.start[0], tok.start[1], tok.string))
    except tokenize.TokenError:
        pass
    return out


def binding_oracle(code):
    """{(line, col): True/False} for tokens whose binding status ast decides unambiguously"""
    res = {}
    tree = ast.parse(code)
    for n in ast.walk(tree):
        if isinstance(n, ast.Name):
            res[(n.lineno, n.col_offset)] = isinstance(n.ctx, (ast.Store, ast.Del)) and not isinstance(n.ctx, ast.Del) \
                or isinstance(n.ctx, ast.Store)
            if isinstance(n.ctx, ast.Del):
                res.pop((n.lineno, n.col_offset), None)     # `del x`: left undecided here
        elif isinstance(n, ast.arg):
            res[(n.lineno, n.col_offset)] = True
    return res


def normalise_newlines_for_ast(code):
    return code


def run(repo, seed, tier):
    import jedi
    import parso
    violations = []
    evaluations = 0
    for code in CORPUS:
        lines = parso.split_lines(code, keepends=True)
        s = jedi.Script(code)
        try:
            names = s.get_names(all_scopes=True, definitions=True, references=True)
        except Exception:
            violations.append({'label': 'get_names raised', 'input': repr(code[:60]), 'observed': traceback.format_exc(limit=3)})
            continue
        # each identifier token exactly once
        got = sorted((n.line, n.column, n.name) for n in names)
        # tokenize works on universal newlines: compute expected positions from parso's own line split
        want = []
        for li, text in enumerate(lines, 1):
            pass
        toks = name_tokens(code.replace('\r\n', '\n').replace('\r', '\n')) if '\x0c' not in code else None
        evaluations += 1
        if toks is not None and '\r' not in code.replace('\r\n', ''):
            want = sorted(t for t in toks)
            if got != want:
                violations.append({'label': 'get_names does not report each identifier token exactly once',
                                   'input': repr(code[:80]),
                                   'observed': 'extra %r missing %r' % (sorted(set(got) - set(want))[:5],
                                                                        sorted(set(want) - set(got))[:5])})
        try:
            oracle = binding_oracle(code.replace('\r\n', '\n'))
        except SyntaxError:
            oracle = {}
        for n in names:
            evaluations += 1
            try:
                line_text = lines[n.line - 1]
                if line_text[n.column:n.column + len(n.name)] != n.name:
                    violations.append({'label': 'text at (line, column) is not the name', 'input': repr((code[:60], n.name)),
                                       'observed': repr((n.line, n.column, line_text))})
                if n.get_line_code() != line_text:
                    violations.append({'label': 'get_line_code() is not the line of the name',
                                       'input': repr((code[:60], n.name, n.line)),
                                       'observed': repr((n.get_line_code(), line_text))})
                st, en = n.get_definition_start_position(), n.get_definition_end_position()
                if st is not None and en is not None:
                    if not (st <= (n.line, n.column) and (n.line, n.column + len(n.name)) <= en):
                        violations.append({'label': 'definition range does not enclose the name',
                                           'input': repr((code[:60], n.name, n.line, n.column)),
                                           'observed': repr((st, en))})
                key = (n.line, n.column)
                if key in oracle and n.is_definition() != oracle[key]:
                    violations.append({'label': 'is_definition() disagrees with what binds',
                                       'input': repr((code[:60], n.name, n.line, n.column)),
                                       'observed': 'is_definition=%r, binds=%r' % (n.is_definition(), oracle[key])})
            except Exception:
                violations.append({'label': 'attribute raised', 'input': repr((code[:60], n.name)),
                                   'observed': traceback.format_exc(limit=3)})
        # results of positional queries point at their name
        for (line, col, text) in (name_tokens(code.replace('\r\n', '\n')) if '\r' not in code.replace('\r\n', '') else []):
            if tier == 'quick' and (line + col) % 3:
                continue
            for q in ('goto', 'get_references'):
                evaluations += 1
                try:
                    for r in getattr(s, q)(line, col):
                        if r.module_path is None and r.line is not None and not r.in_builtin_module():
                            lt = lines[r.line - 1]
                            if lt[r.column:r.column + len(r.name)] != r.name:
                                violations.append({'label': '%s result does not point at its name' % q,
                                                   'input': repr((code[:60], line, col)),
                                                   'observed': repr((r.name, r.line, r.column, lt))})
                except RecursionError:
                    pass
                except Exception:
                    pass        # totality is C01's business
    seen = {}
    for v in violations:
        seen.setdefault(v['label'], []).append(v)
    return {'name': 'C17.positions', 'contract': 'C17.positions',
            'evaluations': evaluations, 'distinct_nontrivial': evaluations,
            'rule': '%d corpus texts (LF/CRLF, tabs, form feed, continuation lines, unicode identifiers, no final newline, '
                    'subscript/attribute targets, walrus, comprehension, except-as, with-as) x all names of get_names and '
                    'goto/get_references results; oracles: the text itself, tokenize, ast contexts' % len(CORPUS),
            'samples': [c[:80] for c in CORPUS[:2]], 'violations': violations[:300],
            'violation_counts': {k: len(v) for k, v in seen.items()}}
