"""C18 bounded stand-in: get_context / parent() / full_name vs the lexical nesting and the run-time names.

Inputs   seeded random PROJECTS (several modules in random directory layouts: top level modules, regular packages,
         __init__.py itself, implicit namespace directories, mixtures, names spelled like stdlib alias keys), each module
         a random program (nested classes / functions / async functions / lambdas / comprehensions / decorated
         definitions / properties / inheritance / cross module imports / odd layouts), the two hand written modules of
         the first version, and corpus files of the tree under test (jedi/**/*.py, test/completion/*.py).
Oracles  lexical nesting: Python's own ast + tokenize;  names: the real import system in a child interpreter with
         sys.path = [project root], __name__ / __module__ / __qualname__ of the live objects.
Checked  every NAME token: get_context;  every Name that denotes a definition of a modelled module, whatever the route it
         was obtained by (get_names, get_context, parent(), defined_names, Name.infer/goto, Script.infer/goto at
         identifier positions, complete after dots, get_references): parent() chain and full_name.
"""
import ast
import glob
import io
import json
import keyword
import multiprocessing
import os
import random
import shutil
import subprocess
import sys
import tempfile
import tokenize
import traceback

# ----------------------------------------------------------------------------------------------------------------------
# the two hand written modules of the first version (kept: regression inputs of the seeded changes it caught)
MODULES = [
    ('pkg/mod.py',
     'import os\n\nclass A:\n    x = [i * 2 for i in range(3) if i]\n    class B:\n        y = 1\n        class C:\n'
     '            z = {k: k for k in range(2)}\n            def deep(self, p):\n                q = p\n                return q\n'
     '        def mb(self):\n            def inner(t):\n                u = t\n                return u\n            return inner\n'
     '    def ma(self, arg):\n        val = arg\n        return val\n\ndef top(a, b=2):\n    loc = a + b\n'
     '    class InFunc:\n        w = 3\n        def m(self):\n            return self.w\n    return loc\n\nmodvar = top(1)\n'),
    ('pkg/posix/_socket.py',
     'class genericpath:\n    posix = 1\n    class _io:\n        def _socket(self):\n            item = 1\n            return item\n'
     '    def _functools(self):\n        thing = 2\n        return thing\n\ndef posixpath():\n    v = 1\n    return v\n'),
]

L_MISSING = 'definition not reported by get_names'
L_CHAIN = 'parent() chain is not the lexically enclosing definitions'
L_FULL = 'full_name is not module path + __qualname__'
L_RAISED = 'parent/full_name raised'
L_CTX = 'get_context is not the innermost enclosing function/class'
L_CTX_RAISED = 'get_context raised'
L_MODNAME = 'module Name at the top of a parent() chain is not the importable dotted name'

# input classes with a label of their own (the class is decided from the INPUT only, see Model.position_class)
CLASS_SUFFIX = {
    'plain': '',
    'async-col': ' [body of an async def, column not right of its def keyword]',
    'dedent': ' [continuation line at or left of the column of the enclosing def/class keyword]',
    'class-lambda': ' [inside a lambda written at class level]',
}

ALIAS_KEYS = ['posix', '_io', 'genericpath', '_socket', '_functools', 'posixpath', 'ntpath', '_collections',
              '_sqlite3', 'nt']


# ----------------------------------------------------------------------------------------------------------------------
class HarnessError(Exception):
    """a defect of this file or of its oracles; never turned into a violation"""


# the model of one source file: ast + tokenize only
class Def:
    __slots__ = ('node', 'kind', 'name', 'name_pos', 'stmt_pos', 'kw_pos', 'first_pos', 'body_first', 'body_end',
                 'is_async', 'params', 'chain')


class Model:
    def __init__(self, code):
        self.code = code
        self.tree = ast.parse(code)
        self.blines = [ln.encode('utf8') for ln in code.split('\n')]
        self.toks = [t for t in tokenize.generate_tokens(io.StringIO(code).readline)]
        self.tok_at = {t.start: i for i, t in enumerate(self.toks) if t.type not in (tokenize.NL, tokenize.NEWLINE,
                                                                                   tokenize.INDENT, tokenize.DEDENT,
                                                                                   tokenize.ENDMARKER)}
        self.defs = []
        self.by_name_pos = {}
        self.param_of = {}
        self.lambdas = []
        self.stores = {}            # position -> 'plain' | 'nested'  (ast.Name in Store context)
        self.scope_decls = []       # (start, end, names) of global / nonlocal statements
        self._build()

    def cc(self, lineno, bytecol):
        return len(self.blines[lineno - 1][:bytecol].decode('utf8'))

    def pos(self, node):
        return node.lineno, self.cc(node.lineno, node.col_offset)

    def end(self, node):
        return node.end_lineno, self.cc(node.end_lineno, node.end_col_offset)

    def _at_sign_before(self, pos):
        i = self.tok_at[pos]
        while i > 0:
            i -= 1
            t = self.toks[i]
            if t.type == tokenize.OP and t.string == '@':
                return t.start
            if t.type not in (tokenize.NL, tokenize.COMMENT):
                break
        raise HarnessError('harness: no @ before decorator at %r' % (pos,))

    def _first_pos(self, node):
        if getattr(node, 'decorator_list', None):
            return self._at_sign_before(self.pos(node.decorator_list[0]))
        return self.pos(node)

    def _build(self):
        for node in ast.walk(self.tree):
            if isinstance(node, (ast.FunctionDef, ast.AsyncFunctionDef, ast.ClassDef)):
                d = Def()
                d.node = node
                d.kind = 'class' if isinstance(node, ast.ClassDef) else 'function'
                d.name = node.name
                d.is_async = isinstance(node, ast.AsyncFunctionDef)
                d.stmt_pos = self.pos(node)
                i = self.tok_at[d.stmt_pos]
                if d.is_async:
                    if self.toks[i].string != 'async':
                        raise HarnessError('harness: async expected at %r' % (d.stmt_pos,))
                    i += 1
                if self.toks[i].string not in ('def', 'class'):
                    raise HarnessError('harness: def/class expected at %r' % (d.stmt_pos,))
                d.kw_pos = self.toks[i].start
                if self.toks[i + 1].string != node.name:
                    raise HarnessError('harness: name token mismatch at %r' % (d.stmt_pos,))
                d.name_pos = self.toks[i + 1].start
                d.first_pos = self._first_pos(node)
                d.body_first = self._first_pos(node.body[0])
                d.body_end = self.end(node.body[-1])
                d.params = []
                if d.kind == 'function':
                    a = node.args
                    for arg in a.posonlyargs + a.args + ([a.vararg] if a.vararg else []) + a.kwonlyargs + \
                            ([a.kwarg] if a.kwarg else []):
                        p = self.pos(arg)
                        d.params.append(p)
                        self.param_of[p] = d
                self.defs.append(d)
                self.by_name_pos[d.name_pos] = d
            elif isinstance(node, ast.Lambda):
                self.lambdas.append((self.pos(node), self.end(node)))
            elif isinstance(node, (ast.Global, ast.Nonlocal)):
                self.scope_decls.append((self.pos(node), self.end(node), set(node.names)))
        self.defs.sort(key=lambda d: d.body_first)
        for d in self.defs:
            d.chain = self.body_chain(d.stmt_pos)
        # simple Store names (candidates for "variable defined at module/class level")
        def walk(node, nested):
            for ch in ast.iter_child_nodes(node):
                n2 = nested or isinstance(ch, (ast.Lambda, ast.ListComp, ast.SetComp, ast.DictComp, ast.GeneratorExp))
                if isinstance(ch, ast.Name) and isinstance(ch.ctx, ast.Store):
                    self.stores[self.pos(ch)] = 'nested' if nested else 'plain'
                walk(ch, n2)
        walk(self.tree, False)

    def body_chain(self, pos):
        """the defs whose BODY contains pos, outermost first"""
        return [d for d in self.defs if d.body_first <= pos < d.body_end]

    def header_of(self, pos):
        """the def whose header (async/def/class keyword up to the first body statement) contains pos"""
        for d in self.defs:
            if d.stmt_pos <= pos < d.body_first:
                return d
        return None

    def in_lambda(self, pos):
        return any(s <= pos < e for s, e in self.lambdas)

    def position_class(self, pos):
        """input class of a position (decided from the input alone)"""
        ch = self.body_chain(pos)
        if not ch:
            return 'plain'
        inner = ch[-1]
        if inner.kind == 'class' and self.in_lambda(pos):
            return 'class-lambda'
        if pos[1] <= inner.stmt_pos[1]:
            return 'dedent'
        if inner.is_async and pos[1] <= inner.kw_pos[1]:
            return 'async-col'
        if any(pos[1] <= d.stmt_pos[1] for d in ch):
            return 'dedent'
        return 'plain'

    def wanted_chains(self, pos):
        """the acceptable lexical chains (lists of Def, outermost first) of a Name whose defining position is pos"""
        if pos in self.by_name_pos:
            return [self.by_name_pos[pos].chain]
        if pos in self.param_of:
            d = self.param_of[pos]
            return [d.chain + [d]]
        ch = self.body_chain(pos)
        h = self.header_of(pos)
        if h is not None:
            # e.g. the parameter of a lambda that is a default value: evaluated outside, written inside the def
            return [ch, ch + [h]]
        if ch and self.scope_decls:
            # a name that the innermost function declares global / nonlocal is written inside that function but is a
            # definition of an outer scope: both readings are accepted
            tok = self.toks[self.tok_at[pos]].string if pos in self.tok_at else None
            inner = ch[-1]
            for start, end, names in self.scope_decls:
                if tok in names and inner.body_first <= start < inner.body_end and self.body_chain(start) == ch:
                    return [ch] + [ch[:i] for i in range(len(ch))]
        return [ch]

    def access_paths(self):
        """dotted attribute paths of all definitions whose enclosing scopes are classes only"""
        out = set()
        for d in self.defs:
            if all(c.kind == 'class' for c in d.chain):
                out.add('.'.join([c.name for c in d.chain] + [d.name]))
        return sorted(out)


# ----------------------------------------------------------------------------------------------------------------------
# the run-time oracle: a child interpreter imports the modules with the real import system
ORACLE_CHILD = r'''
import sys, json, os, importlib, types
req = json.loads(sys.stdin.read())
sys.path.insert(0, req['root'])
sys.dont_write_bytecode = True
out = {}

def describe(obj):
    if isinstance(obj, property):
        qs = set()
        for f in (obj.fget, obj.fset, obj.fdel):
            if f is not None and hasattr(f, '__qualname__'):
                qs.add((f.__module__, f.__qualname__))
        if len(qs) == 1:
            m, q = qs.pop()
            return ['property', m, q]
        return None
    if isinstance(obj, (staticmethod, classmethod)):
        obj = obj.__func__
    if isinstance(obj, type):
        return ['class', obj.__module__, obj.__qualname__]
    if isinstance(obj, (types.FunctionType, types.MethodType)):
        return ['function', obj.__module__, obj.__qualname__]
    return None

for m in req['modules']:
    try:
        mod = importlib.import_module(m['dotted'])
    except BaseException as e:
        if m['must_import']:
            raise
        out[m['rel']] = {'error': '%s: %s' % (type(e).__name__, e)}
        continue
    f = getattr(mod, '__file__', None)
    if f is None or not os.path.samefile(f, m['path']):
        raise RuntimeError('import of %s gave %r, not %r' % (m['dotted'], f, m['path']))
    objs = {}
    for path in m['paths']:
        cur = mod
        ok = True
        for part in path.split('.'):
            d = getattr(cur, '__dict__', {})
            if part in d:
                cur = d[part]
            else:
                ok = False
                break
        objs[path] = describe(cur) if ok else None
    refs = {}
    for r in m['refs']:
        if hasattr(mod, r):
            refs[r] = describe(getattr(mod, r))
    out[m['rel']] = {'name': mod.__name__, 'objs': objs, 'refs': refs}
print('ORACLE ' + json.dumps(out))
'''


def run_oracle(root, modules):
    p = subprocess.run([sys.executable, '-c', ORACLE_CHILD], input=json.dumps({'root': root, 'modules': modules}),
                       capture_output=True, text=True, timeout=600,
                       env={k: v for k, v in os.environ.items() if k not in ('PYTHONPATH',)})
    for line in p.stdout.splitlines():
        if line.startswith('ORACLE '):
            return json.loads(line[7:])
    raise HarnessError('harness: run-time oracle failed (root %s):\n%s' % (root, p.stderr[-3000:]))


# ----------------------------------------------------------------------------------------------------------------------
# the program generator
class ClassInfo:
    def __init__(self, path, bases, executed):
        self.path = path                # list of names from module level, or None if not reachable by attribute access
        self.bases = bases              # ClassInfo list
        self.executed = executed
        self.methods = {}               # name -> kind ('plain', 'static', 'class', 'property', 'async')
        self.nested = []                # names of nested classes
        self.plain = False

    def all_methods(self):
        out = {}
        for b in reversed(self.bases):
            out.update(b.all_methods())
        out.update(self.methods)
        return out

    def expr(self, prefix=''):
        return prefix + '.'.join(self.path)


class ProgGen:
    """one random module; `imports` = [(dotted, relative form or None, export dict)] of earlier modules"""

    def __init__(self, rng, imports, size):
        self.rng = rng
        self.size = size
        self.unit = rng.choice(['    ', '    ', '    ', '  ', ' ', '\t', '        '])
        self.lines = []
        self.counter = 0
        self.classes = []               # executed, completely defined classes reachable by attribute paths
        self.pending = []               # the same, but the outermost class statement is not finished yet
        self.scope_stack = []           # names bound so far in the class bodies that are open (and executed)
        self.funcs = []                 # executed module level functions
        self.ext = []                   # (expression for the class, ClassInfo of a class of another module)
        self.refs = []                  # names of the module level reference variables
        self.imports = imports
        self.p_dedent = rng.choice([0.0, 0.0, 0.15])
        self.p_oneline = rng.choice([0.0, 0.1, 0.3])
        self.p_multiline = rng.choice([0.0, 0.2, 0.5])
        self.p_alias = rng.choice([0.0, 0.1, 0.3])
        self.budget = size

    # -- helpers
    def emit(self, level, text):
        self.lines.append(self.unit * level + text)

    def fresh(self, prefix, scope_used, parent_name=None):
        r = self.rng.random()
        cand = None
        if r < self.p_alias:
            cand = self.rng.choice(ALIAS_KEYS)
        elif r < self.p_alias + 0.07 and parent_name:
            cand = parent_name
        if cand is None or cand in scope_used or keyword.iskeyword(cand):
            self.counter += 1
            cand = '%s%d' % (prefix, self.counter)
        scope_used.add(cand)
        return cand

    def literal(self):
        # the non-ASCII literal shifts the byte offsets (ast) against the character offsets (jedi, tokenize) of what
        # follows it on the line
        return self.rng.choice(['1', '2', "'s'", 'None', '(1, 2)', '[1]', '{}', '3.5', 'True', "'\u00e9\u20ac'"])

    def comp(self, depth=0, allow_lambda=True):
        """a run-time safe comprehension"""
        r = self.rng
        self.counter += 1
        v = 'c%d' % self.counter
        w = 'd%d' % self.counter
        elt = r.choice([v, '%s * 2' % v, '(%s, 1)' % v, 'str(%s)' % v])
        if depth < 2 and r.random() < 0.3:
            elt = self.comp(depth + 1, allow_lambda)
        elif allow_lambda and r.random() < 0.15:
            elt = 'lambda: %s' % v
        src = r.choice(['range(3)', '(1, 2)', '[0, 1]'])
        tail = r.choice(['', ' if %s' % v, ' for %s in range(2)' % w, ' for %s in range(2) if %s' % (w, w)])
        form = r.randrange(4)
        if form == 0:
            return '[%s for %s in %s%s]' % (elt, v, src, tail)
        if form == 1:
            return '{%s for %s in %s%s}' % (v, v, src, tail)
        if form == 2:
            return '{%s: %s for %s in %s%s}' % (v, elt, v, src, tail)
        return 'list(%s for %s in %s%s)' % (elt, v, src, tail)

    def lam(self):
        r = self.rng
        self.counter += 1
        a = 'l%d' % self.counter
        return r.choice(['lambda %s: %s' % (a, a), 'lambda %s, k%d=1: (%s, k%d)' % (a, self.counter, a, self.counter),
                         'lambda: 0', 'lambda *%s: [e%d for e%d in %s]' % (a, self.counter, self.counter, a),
                         'lambda %s: lambda m%d: %s' % (a, self.counter, a)])

    def safe_expr(self):
        r = self.rng.random()
        if r < 0.3:
            return self.literal()
        if r < 0.6:
            return self.comp()
        if r < 0.75:
            return self.lam()
        funcs = [f for f in self.funcs if self.visible(f)]
        classes = [c for c in self.classes if self.visible(c.path[0])]
        if r < 0.85 and funcs:
            return self.rng.choice(funcs)
        if r < 0.95 and classes:
            return self.rng.choice(classes).expr()
        return '(%s, %s)' % (self.literal(), self.literal())

    def multiline(self, level, head, items, tail):
        """head + items + tail, possibly spread over continuation lines (sometimes dedented)"""
        r = self.rng
        if not items or r.random() >= self.p_multiline:
            self.emit(level, head + ', '.join(items) + tail)
            return
        if r.random() < self.p_dedent and level > 0:
            ind = self.unit * r.randrange(0, level)
        else:
            ind = self.unit * (level + r.choice([1, 2, 2]))
        self.emit(level, head)
        for it in items:
            self.lines.append(ind + it + ',')
        self.lines.append(r.choice([self.unit * level, ind]) + tail)

    # -- definitions
    def decorators(self, level, in_class):
        r = self.rng
        decs = []
        x = r.random()
        if x < 0.45:
            return decs
        if x < 0.6:
            decs.append(self.ident)
        elif x < 0.75:
            args = r.sample([self.lam(), self.comp(), '1'], r.randrange(0, 3))
            if r.random() < 0.4:
                args.append('key=%s' % self.lam())
            decs.append('%s(%s)' % (self.factory, ', '.join(args)))
        elif x < 0.85:
            decs.extend([self.ident, '%s()' % self.factory])
        else:
            decs.extend(['%s(%s)' % (self.factory, self.lam()), self.ident, self.ident])
        return decs

    def params(self, first, safe=True):
        r = self.rng
        ps = [first] if first else []
        self.counter += 1
        k = self.counter
        n = r.randrange(0, 4)
        have_default = False
        for i in range(n):
            p = 'p%d_%d' % (k, i)
            if r.random() < 0.3:
                p += ': ' + r.choice(['int', "'T'", 'str', 'list'])
                if have_default or r.random() < 0.5:
                    p += ' = ' + (self.safe_expr())
                    have_default = True
            elif have_default or r.random() < 0.4:
                p += '=' + self.safe_expr()
                have_default = True
            ps.append(p)
        if n >= 2 and not have_default and r.random() < 0.2:
            ps.insert(len(ps) - 1, '/')
        if r.random() < 0.25:
            ps.append('*a%d' % k)
            if r.random() < 0.5:
                ps.append('ko%d=%s' % (k, self.safe_expr()))
        if r.random() < 0.25:
            ps.append('**kw%d' % k)
        return ps

    def funcdef(self, level, scope_used, parent, cls, executed, depth, forced_name=None, forced_decs=None,
                force_kind=None):
        """cls: ClassInfo if this is a method"""
        r = self.rng
        self.budget -= 1
        name = forced_name or self.fresh(r.choice(['fn', 'meth', 'do']), scope_used, parent)
        is_async = force_kind is None and r.random() < 0.25
        kind = force_kind or ('async' if is_async else 'plain')
        decs = list(forced_decs) if forced_decs is not None else self.decorators(level, cls is not None)
        first = None
        if cls is not None:
            x = r.random()
            first = 'self'
            if forced_decs is None and force_kind is None and x < 0.12 and not is_async:
                decs.append('staticmethod')
                first = None
                kind = 'static'
            elif forced_decs is None and force_kind is None and x < 0.24 and not is_async:
                decs.append('classmethod')
                first = 'cls'
                kind = 'class'
        for dline in decs:
            self.emit(level, '@' + dline)
        if kind == 'property':
            ps = [first] if forced_name is None or forced_decs == ['property'] else [first, 'value']
            if forced_decs and forced_decs[0].endswith('.deleter'):
                ps = [first]
        else:
            ps = self.params(first)
        ret = r.choice(['', '', '', ' -> int', " -> 'T'"])
        head = ('async def ' if is_async else 'def ') + name + '('
        if cls is not None:
            if executed:
                cls.methods[name] = kind
        elif cls is None and parent is None and executed:
            self.funcs.append(name)
        if depth >= 4 or self.budget <= 0 or r.random() < self.p_oneline:
            self.emit(level, head + ', '.join(ps) + ')' + ret + ': ' + r.choice(['return 1', 'pass', 'v = 1; return v']))
            return name
        self.multiline(level, head, ps, ')' + ret + ':')
        if r.random() < 0.2:
            self.emit(level + 1, '"""doc of %s"""' % name)
        self.func_body(level + 1, name, cls, is_async, depth + 1, kind)
        return name

    def func_body(self, level, fname, cls, is_async, depth, kind):
        """never executed (except __init__, which is written by classdef itself)"""
        r = self.rng
        used = set()
        n = r.randrange(1, 5)
        locs = []
        for _ in range(n):
            x = r.random()
            if x < 0.2:
                v = self.fresh('loc', used)
                self.emit(level, '%s = %s' % (v, r.choice([self.safe_expr(), self.ref_expr(cls)] + locs)))
                locs.append(v)
            elif x < 0.3 and cls is not None and kind not in ('static', 'class'):
                self.emit(level, 'self.at%d = %s' % (self.next(), self.safe_expr()))
            elif x < 0.45:
                self.emit(level, self.ref_expr(cls))
            elif x < 0.6 and self.budget > 0:
                self.funcdef(level, used, fname, None, False, depth)
            elif x < 0.7 and self.budget > 0:
                self.classdef(level, used, fname, None, False, depth)
            elif x < 0.78:
                k = self.next()
                self.multiline(level, 'big%d = [' % k, [self.literal(), self.lam(), (locs or ['0'])[0]], ']')
            elif x < 0.84:
                k = self.next()
                self.emit(level, 'if (w%d := %s) is not None:' % (k, self.literal()))
                self.emit(level + 1, 'u%d = w%d' % (k, k))
            elif x < 0.9:
                k = self.next()
                hdr = r.choice(['for it%d in %s:' % (k, self.comp()), 'with %s() as cm%d:' % (self.ctx, k),
                                'while True:', 'try:'])
                if is_async and r.random() < 0.6 and not hdr.startswith(('while', 'try')):
                    hdr = 'async ' + hdr
                self.emit(level, hdr)
                if self.budget > 0 and r.random() < 0.6:
                    self.funcdef(level + 1, used, fname, None, False, depth)
                else:
                    self.emit(level + 1, 'z%d = %s' % (k, self.lam()))
                if hdr == 'try:':
                    self.emit(level, 'except Exception as exc%d:' % k)
                    self.emit(level + 1, 'y%d = exc%d' % (k, k))
                elif hdr == 'while True:':
                    self.emit(level + 1, 'break')
            elif x < 0.95:
                self.emit(level, r.choice(['import os', 'import os.path as osp', 'from os import sep']))
            else:
                k = self.next()
                if is_async:
                    self.emit(level, 'got%d = [aw%d async for aw%d in %s]' % (k, k, k, (locs or ['()'])[0]))
                else:
                    self.emit(level, 'got%d = %s' % (k, self.comp()))
        self.emit(level, r.choice(['return None', 'return %s' % (locs or ['0'])[-1], 'pass',
                                   'return %s' % self.lam()]) if not is_async or r.random() < 0.5 else
                  'return await %s' % (locs or ['fut'])[-1])

    def next(self):
        self.counter += 1
        return self.counter

    def visible(self, name):
        """a module level name is not shadowed by a name of one of the class bodies that are being executed"""
        return not any(name in used for used in self.scope_stack)

    def ref_expr(self, cls):
        """an expression that refers to definitions (used in bodies that are never executed)"""
        r = self.rng
        cands = []
        if cls is not None:
            ms = list(cls.all_methods())
            if ms:
                cands.append('self.%s' % r.choice(ms))
                cands.append('cls.%s' % r.choice(ms))
                cands.append('super().%s' % r.choice(ms))
            if cls.nested:
                cands.append('self.%s' % r.choice(cls.nested))
        if self.classes:
            c = r.choice(self.classes)
            ms = list(c.all_methods())
            cands.append(c.expr())
            if ms:
                cands.append('%s.%s' % (c.expr(), r.choice(ms)))
                cands.append('%s().%s' % (c.expr(), r.choice(ms)))
        if self.ext:
            ex, c = r.choice(self.ext)
            ms = list(c.all_methods())
            if ms:
                cands.append('%s().%s' % (ex, r.choice(ms)))
        if self.funcs:
            cands.append(r.choice(self.funcs))
        return r.choice(cands) if cands else self.literal()

    def pick_bases(self):
        r = self.rng
        x = r.random()
        pool = [c for c in self.classes if self.visible(c.path[0])] + [c for _, c in self.ext]
        if x < 0.45 or not pool:
            return [], r.choice(['', '', '()', '(object)', '(dict)', '(metaclass=type)', '(Exception)'])
        b = r.choice(pool)
        text = self.base_text(b)
        if x < 0.9:
            return [b], '(%s)' % text + ''
        roots = [c for c in pool if c.plain and c is not b and b.plain]
        if roots:
            b2 = r.choice(roots)
            return [b, b2], '(%s, %s)' % (text, self.base_text(b2))
        return [b], '(%s, metaclass=type)' % text

    def base_text(self, c):
        for ex, c2 in self.ext:
            if c2 is c:
                return ex
        return c.expr()

    def classdef(self, level, scope_used, parent, outer, executed, depth):
        """outer: ClassInfo of the enclosing class or None; the class is reachable iff at module level or outer.path"""
        r = self.rng
        self.budget -= 1
        name = self.fresh(r.choice(['Kls', 'Cls', 'Node']), scope_used, parent)
        # `parent` is the name of the directly enclosing def/class (None at module level, also inside if/try/for/with)
        if executed and outer is None and parent is None:
            path = [name]
        elif executed and outer is not None and outer.path is not None:
            path = outer.path + [name]
        else:
            path = None
        bases, btext = ([], '') if not executed else self.pick_bases()
        info = ClassInfo(path, bases, executed)
        info.plain = not bases and btext in ('', '()', '(object)')       # can be combined with another such base
        decs = [d for d in self.decorators(level, False)] if r.random() < 0.3 else []
        for dline in decs:
            self.emit(level, '@' + dline)
        if depth >= 4 or self.budget <= 0 or r.random() < self.p_oneline * 0.5:
            self.emit(level, 'class %s%s: %s' % (name, btext, r.choice(['pass', 'cv = 1', 'cv = 1; cw = [q for q in (1,)]'])))
            if info.path is not None:
                self.pending.append(info)
            if outer is not None and executed:
                outer.nested.append(name)
            return info
        self.emit(level, 'class %s%s:' % (name, btext))
        used = set()
        self.scope_stack.append(used)
        if r.random() < 0.2:
            self.emit(level + 1, '"""doc of %s"""' % name)
        n = r.randrange(1, 6)
        for _ in range(n):
            x = r.random()
            if x < 0.15:
                self.emit(level + 1, '%s = %s' % (self.fresh('cv', used), r.choice([self.literal(), self.comp(),
                                                                                    self.comp(), self.lam()])))
            elif x < 0.5:
                self.funcdef(level + 1, used, name, info, executed, depth + 1)
            elif x < 0.62 and self.budget > 0:
                self.classdef(level + 1, used, name, info, executed, depth + 1)
            elif x < 0.75:
                pn = self.fresh('prop', used, name)
                self.funcdef(level + 1, used, name, info, executed, depth + 1, forced_name=pn,
                             forced_decs=['property'], force_kind='property')
                if r.random() < 0.6:
                    self.funcdef(level + 1, used, name, info, executed, depth + 1, forced_name=pn,
                                 forced_decs=['%s.setter' % pn], force_kind='property')
                if r.random() < 0.2:
                    self.funcdef(level + 1, used, name, info, executed, depth + 1, forced_name=pn,
                                 forced_decs=['%s.deleter' % pn], force_kind='property')
            elif x < 0.82 and '__init__' not in used:
                used.add('__init__')
                k = self.next()
                self.emit(level + 1, 'def __init__(self, ia%d=1, *ib%d, **ic%d):' % (k, k, k))
                self.emit(level + 2, 'self.ia%d = ia%d' % (k, k))
                info.methods['__init__'] = 'init'
            elif x < 0.92:
                self.wrapped(level + 1, used, name, info, executed, depth + 1)
            else:
                self.multiline(level + 1, '%s = (' % self.fresh('cv', used), [self.literal(), self.comp()], ')')
        self.scope_stack.pop()
        if info.path is not None:
            self.pending.append(info)
        if outer is not None and executed:
            outer.nested.append(name)
        return info

    def wrapped(self, level, used, parent, outer, executed, depth):
        """definitions inside compound statements: still the same lexical scope"""
        r = self.rng
        k = self.next()
        form = r.randrange(5)

        def one(lv, ex):
            if r.random() < 0.5:
                self.funcdef(lv, used, parent, outer, ex, depth)
            else:
                self.classdef(lv, used, parent, outer, ex, depth)
        if form == 0:
            self.emit(level, 'if True:')
            one(level + 1, executed)
        elif form == 1:
            self.emit(level, 'if 0:')
            one(level + 1, False)
            self.emit(level, 'else:')
            one(level + 1, executed)
        elif form == 2:
            self.emit(level, 'try:')
            one(level + 1, executed)
            self.emit(level, 'except Exception as exc%d:' % k)
            one(level + 1, False)
            if r.random() < 0.5:
                self.emit(level, 'finally:')
                self.emit(level + 1, 'fin%d = 1' % k)
        elif form == 3:
            self.emit(level, 'for it%d in (1,):' % k)
            one(level + 1, executed)
        else:
            self.emit(level, 'with %s() as cm%d:' % (self.ctx, k))
            one(level + 1, executed)

    # -- the module
    def module(self):
        r = self.rng
        used = set()
        self.emit(0, '"""generated module"""')
        for dotted, relform, export in self.imports:
            forms = ['import', 'import-as', 'from']
            if relform:
                forms += ['rel', 'rel']
            f = r.choice(forms)
            k = self.next()
            if f == 'import':
                self.emit(0, 'import %s' % dotted)
                pre = dotted + '.'
            elif f == 'import-as':
                self.emit(0, 'import %s as im%d' % (dotted, k))
                pre = 'im%d.' % k
            elif f == 'from' and '.' in dotted:
                self.emit(0, 'from %s import %s as im%d' % (dotted.rsplit('.', 1)[0], dotted.rsplit('.', 1)[1], k))
                pre = 'im%d.' % k
            elif f == 'rel':
                self.emit(0, 'from %s import %s as im%d' % (relform[0], relform[1], k))
                pre = 'im%d.' % k
            else:
                self.emit(0, 'import %s as im%d' % (dotted, k))
                pre = 'im%d.' % k
            for c in export['classes']:
                self.ext.append((c.expr(pre), c))
            tops = [c for c in export['classes'] if len(c.path) == 1]
            if tops and r.random() < 0.5:
                c = r.choice(tops)
                self.emit(0, 'from %s import %s as Ext%d' % (dotted, c.path[0], k))
                self.ext.append(('Ext%d' % k, c))
        self.ident = 'ident%d' % self.next()
        self.factory = 'factory%d' % self.next()
        self.ctx = 'Ctx%d' % self.next()
        self.emit(0, 'def %s(f):' % self.ident)
        self.emit(1, 'return f')
        self.emit(0, 'def %s(*args, **kwargs):' % self.factory)
        self.emit(1, 'def deco(f):')
        self.emit(2, 'return f')
        self.emit(1, 'return deco')
        self.emit(0, 'class %s:' % self.ctx)
        self.emit(1, 'def __enter__(self): return self')
        self.emit(1, 'def __exit__(self, *exc): return False')
        while self.budget > 0:
            self.classes.extend(self.pending)
            self.pending = []
            x = r.random()
            if x < 0.4:
                self.classdef(0, used, None, None, True, 0)
            elif x < 0.6:
                self.funcdef(0, used, None, None, True, 0)
            elif x < 0.7:
                self.wrapped(0, used, None, None, True, 0)
            elif x < 0.85:
                self.emit(0, '%s = %s' % (self.fresh('mv', used), self.safe_expr()))
                self.budget -= 1
            elif x < 0.9:
                k = self.next()
                self.emit(0, 'for mi%d, mj%d in ((1, 2),):' % (k, k))
                self.emit(1, 'mk%d = mi%d' % (k, k))
                self.budget -= 1
            else:
                self.multiline(0, '%s = [' % self.fresh('mv', used), [self.literal(), self.lam(), self.comp()], ']')
                self.budget -= 1
        self.classes.extend(self.pending)
        self.pending = []
        # the reference section (executed at import)
        targets = []
        for c in self.classes:
            targets.append(c.expr())
            inst = all(b.path is not None for b in c.bases)
            for m, kind in c.all_methods().items():
                if m == '__init__':
                    continue
                targets.append('%s.%s' % (c.expr(), m))
                if kind != 'property' and inst:
                    targets.append('%s().%s' % (c.expr(), m))
            for nn in c.nested:
                targets.append('%s.%s' % (c.expr(), nn))
        for ex, c in self.ext:
            for m, kind in c.all_methods().items():
                if m == '__init__':
                    continue
                targets.append('%s.%s' % (ex, m))
                if kind != 'property':
                    targets.append('%s().%s' % (ex, m))
        targets.extend(self.funcs)
        r.shuffle(targets)
        for t in targets[:max(12, self.size)]:
            k = self.next()
            if r.random() < 0.2 and '.' in t:
                head, tail = t.rsplit('.', 1)
                self.emit(0, 'al%d = %s' % (k, head))
                t = 'al%d.%s' % (k, tail)
            self.emit(0, 'ref%d = %s' % (k, t))
            self.refs.append('ref%d' % k)
        return '\n'.join(self.lines) + '\n'

    def export(self):
        return {'classes': [c for c in self.classes if c.path is not None], 'funcs': list(self.funcs)}


def gen_layout(rng, nmods):
    """random relative module paths and the kind (regular package / implicit namespace) of every directory"""
    dirs = {}           # relative dir -> 'regular' | 'namespace'
    rels = []
    for i in range(nmods):
        depth = rng.choice([0, 1, 1, 2, 2, 3])
        cur = ''
        for level in range(depth):
            subs = sorted(d for d in dirs if os.path.dirname(d) == cur)
            if subs and rng.random() < 0.5:
                d = rng.choice(subs)
            else:
                if level and rng.random() < 0.25:
                    nm = rng.choice(ALIAS_KEYS)
                else:
                    nm = rng.choice(['pk', 'nsp', 'lb', 'tl']) + str(rng.randrange(3))
                d = os.path.join(cur, nm) if cur else nm
                if d + '.py' in rels:       # a module of that name exists: a directory would shadow it
                    d += 'd'
                if d not in dirs:
                    dirs[d] = rng.choice(['regular', 'namespace', 'namespace'])
            cur = d
        if cur and dirs[cur] == 'regular' and rng.random() < 0.25 and (cur + '/__init__.py') not in rels:
            rel = cur + '/__init__.py'
        else:
            base = rng.choice(ALIAS_KEYS) if (cur and rng.random() < 0.2) else 'm%d' % i
            rel = (cur + '/' if cur else '') + base + '.py'
            if rel in rels or (rel[:-3] in dirs):
                rel = (cur + '/' if cur else '') + 'm%d.py' % i
        rels.append(rel)
    return rels, dirs


def dotted_of(rel):
    d = rel[:-3].replace('/', '.')
    if d.endswith('.__init__'):
        d = d[:-len('.__init__')]
    return d


# ----------------------------------------------------------------------------------------------------------------------
# the checks
class ModInfo:
    def __init__(self, rel, path, code, model, rt):
        self.rel = rel
        self.path = path
        self.code = code
        self.model = model
        self.rt = rt            # run-time facts {'name', 'objs', 'refs'} or None


class Checker:
    def __init__(self, jedi, mods, rng, generated):
        self.jedi = jedi
        self.mods = {os.path.realpath(m.path): m for m in mods}
        self.rng = rng
        self.generated = generated
        self.violations = []
        self.evaluations = 0
        self.nontrivial = 0
        self.seen = set()
        self.skipped_fullname = 0
        self.route_errors = 0
        self.sandbox_artefacts = 0
        self.unidentified = 0
        self._mp_cache = {}
        self.dup_dirs = set()     # directory names that occur at two places of the project

    def add(self, label, kind, inp, observed):
        self.violations.append({'label': label, 'kind': kind, 'input': inp, 'observed': observed})

    def raised(self, label, kind, inp):
        """an observable of the property raised (call inside the except block)"""
        full = traceback.format_exc()
        if "'CompiledModule' object has no attribute 'non_stub_value_set'" in full:
            # artefact of this sandbox, not of jedi: the typeshed submodule is empty, the builtins module is a compiled
            # module and every inference that touches True/False/None or a builtin name ends like this
            self.sandbox_artefacts += 1
            return
        tb = full.strip().split('\n')
        self.add(label, kind, inp, '\n'.join(tb[:1] + tb[-9:]))

    def modinfo_of(self, name):
        mp = name.module_path
        if mp is None:
            return None
        mp = str(mp)
        if mp not in self._mp_cache:
            self._mp_cache[mp] = self.mods.get(os.path.realpath(mp))
        return self._mp_cache[mp]

    # -- expected full name of the definition at `pos` (None: the property does not speak about it)
    def wanted_full_name(self, mi, pos):
        if mi.rt is None:
            return None
        model = mi.model
        rt = mi.rt

        def owner_full(chain):
            if not chain:
                return rt['name']
            o = rt['objs'].get('.'.join(c.name for c in chain))
            if o is None or o[0] != 'class':
                return None
            return o[1] + '.' + o[2]
        d = model.by_name_pos.get(pos)
        if d is not None:
            if not all(c.kind == 'class' for c in d.chain):
                return None
            own = owner_full(d.chain)
            if own is None:
                return None
            want = own + '.' + d.name
            o = rt['objs'].get('.'.join([c.name for c in d.chain] + [d.name]))
            if o is not None and o[1] + '.' + o[2] != want:
                # the object bound to this name at run time is something else (alias, replaced by a decorator, a
                # second definition in another class of the same name): no oracle
                if self.generated:
                    raise HarnessError('harness: run-time name %r differs from the lexical one %r in %s'
                                       % (o, want, mi.rel))
                return None
            return want
        if model.stores.get(pos) == 'plain' and pos not in model.param_of:
            ch = model.body_chain(pos)
            if model.header_of(pos) is not None or not all(c.kind == 'class' for c in ch):
                return None
            own = owner_full(ch)
            if own is None:
                return None
            tok = model.toks[model.tok_at[pos]]
            return own + '.' + tok.string
        return None

    # -- the central invariant: a Name that denotes the definition at (module, line, column)
    def check_name(self, name, route, origin):
        try:
            typ = name.type
            mi = self.modinfo_of(name)
            line, col = name.line, name.column
        except Exception:
            # .type infers names bound by imports: not an observable of this property (and without typeshed such
            # inference raises in this sandbox)
            self.route_errors += 1
            return
        if mi is None:
            return
        if typ == 'module' and (line, col) == (1, 0):
            # the Name of a module itself (names bound by import statements sit on their alias token instead)
            key = (route, mi.rel, 'module')
            if key not in self.seen:
                self.seen.add(key)
                self.check_module_name(name, mi, route, origin)
            return
        if typ == 'instance' or line is None:
            return
        pos = (line, col)
        key = (route, mi.rel, pos)
        if key in self.seen:
            return
        self.seen.add(key)
        model = mi.model
        tok = model.toks[model.tok_at[pos]] if pos in model.tok_at else None
        if tok is None or tok.type != tokenize.NAME or tok.string != ('lambda' if name.name == '<lambda>' else name.name):
            # module_path/line/column of this Name do not designate an identifier of that spelling: it cannot be
            # attributed to a definition of the model (positions of Names are another property)
            self.unidentified += 1
            return
        tokstr = tok.string
        self.evaluations += 1
        inp = repr((mi.rel, tokstr, pos)) + ('' if route == 'get_names' else ' via %s from %r' % (route, origin))
        pclass = model.position_class(pos)
        kind = '%s/%s/%s' % (route, typ, pclass)
        try:
            got = []
            cur = name.parent()
            steps = 0
            top = None
            while cur is not None:
                steps += 1
                if steps > 60:
                    break
                if cur.type == 'module':
                    top = cur
                    break
                got.append((cur.name, cur.line, cur.column, cur))
                cur = cur.parent()
            wants = model.wanted_chains(pos)
            got_cmp = [(n, l, c) for n, l, c, _ in got if n != '<lambda>']
            want_cmps = [[(d.name,) + d.name_pos for d in reversed(w)] for w in wants]
            if wants[0]:
                self.nontrivial += 1
            if got_cmp not in want_cmps or top is None:
                self.add(L_CHAIN + self.route_suffix(route) + CLASS_SUFFIX[pclass], kind, inp,
                         'got %r want %r' % ([g[0] for g in got_cmp], [w[0] for w in want_cmps[0]])
                         + ' (positions got %r want %r; chain %s at a module)'
                         % ([g[1:] for g in got_cmp], [w[1:] for w in want_cmps[0]],
                            'ends' if top is not None else 'DOES NOT end'))
            if top is not None:
                mtop = self.modinfo_of(top)
                if mtop is not mi:
                    self.add(L_CHAIN + self.route_suffix(route) + CLASS_SUFFIX[pclass], kind, inp,
                             'chain ends at module %r, the definition is in %r' % (top.full_name, mi.rel))
                else:
                    self.check_name(top, 'parent()', inp)
            want_fn = self.wanted_full_name(mi, pos)
            if want_fn is not None:
                self.nontrivial += 1
                fn = name.full_name
                if fn != want_fn:
                    self.add(L_FULL + self.route_suffix(route) + self.envdir_suffix(mi), kind + self.envdir_suffix(mi),
                             inp, 'got %r want %r' % (fn, want_fn))
            elif pos in model.by_name_pos:
                self.skipped_fullname += 1
            # the Names on the chain are Names of definitions themselves (route parent())
            for n, l, c, obj in got:
                if n != '<lambda>':
                    self.check_name(obj, 'parent()', inp)
        except HarnessError:
            raise
        except Exception:
            self.raised(L_RAISED + self.route_suffix(route), kind, inp)

    def check_module_name(self, name, mi, route, origin):
        if mi.rt is None:
            return
        self.evaluations += 1
        self.nontrivial += 1
        inp = repr((mi.rel, 'module')) + ' via %s from %r' % (route, origin)
        try:
            fn = name.full_name
            want = mi.rt['name']
            if fn != want or name.name != want.rsplit('.', 1)[-1]:
                dup = set(mi.rel.split('/')[:-1]) & self.dup_dirs
                self.add(L_MODNAME + (' [a directory name of its path occurs twice in the project]' if dup else '')
                         + self.envdir_suffix(mi),
                         route + '/module' + ('/dup' if dup else '') + self.envdir_suffix(mi), inp,
                         'got full_name %r name %r want %r' % (fn, name.name, want))
        except Exception:
            self.raised(L_RAISED + self.route_suffix(route), route + '/module', inp)

    @staticmethod
    def envdir_suffix(mi):
        """input class: corpus modules that lie next to jedi's subprocess start script; the environment reports the
        sys.path of that process, whose first entry is this directory"""
        if not mi.path.endswith(os.path.join('jedi', 'inference', 'compiled', 'subprocess', os.path.basename(mi.path))):
            return ''
        return ' [module in the directory of jedi\'s own subprocess start script]'

    @staticmethod
    def route_suffix(route):
        return '' if route == 'get_names' else ' [Name from %s]' % route

    # -- everything about one module
    def check_module(self, mi, project, limits):
        jedi = self.jedi
        rng = self.rng
        model = mi.model
        s = jedi.Script(mi.code, path=mi.path, project=project)

        def call(what, fn, origin):
            try:
                return list(fn())
            except Exception:
                if what == 'get_names':
                    return None
                # not an observable of this property (robustness of the API is another property; without typeshed many
                # inference paths raise in this sandbox)
                self.route_errors += 1
                return []
        # 1. get_names
        names = call('get_names', lambda: s.get_names(all_scopes=True, definitions=True, references=False), mi.rel)
        by_pos = {}
        names_failed = names is None
        if names_failed:
            self.route_errors += 1
            names = []
        for n in names:
            by_pos.setdefault((n.line, n.column), n)
        for d in model.defs:
            if not names_failed and d.name_pos not in by_pos:
                self.evaluations += 1
                self.add(L_MISSING, 'missing', repr((mi.rel, d.name, d.name_pos)), 'missing')
        todo = names
        if len(todo) > limits['names']:
            todo = rng.sample(todo, limits['names'])
        for n in todo:
            self.check_name(n, 'get_names', mi.rel)
        # 2. Names derived from definition Names
        dnames = [n for n in names if (n.line, n.column) in model.by_name_pos]
        if len(dnames) > limits['derived']:
            dnames = rng.sample(dnames, limits['derived'])
        for n in dnames:
            org = (mi.rel, n.name, (n.line, n.column))
            for x in call('defined_names', n.defined_names, org):
                self.check_name(x, 'defined_names', org)
            for x in call('Name.infer', n.infer, org):
                self.check_name(x, 'Name.infer', org)
            for x in call('Name.goto', n.goto, org):
                self.check_name(x, 'Name.goto', org)
        # 3. get_context on NAME tokens
        toks = [t for t in model.toks if t.type == tokenize.NAME]
        if len(toks) > limits['tokens']:
            toks = rng.sample(toks, limits['tokens'])
        for t in toks:
            cols = [t.start[1]]
            if len(t.string) > 1 and rng.random() < 0.3:
                cols.append(t.start[1] + rng.randrange(1, len(t.string)))
            for col in cols:
                self.check_context(s, mi, (t.start[0], t.start[1]), col, t.string)
        # 4. infer / goto at identifiers
        idents = [t for t in model.toks if t.type == tokenize.NAME and not keyword.iskeyword(t.string)]
        if len(idents) > limits['infer']:
            idents = rng.sample(idents, limits['infer'])
        for t in idents:
            org = (mi.rel, t.string, t.start)
            for x in call('infer', lambda: s.infer(*t.start), org):
                self.check_name(x, 'infer', org)
            for x in call('goto', lambda: s.goto(*t.start, follow_imports=True), org):
                self.check_name(x, 'goto', org)
        # 5. completions after dots
        dots = [model.toks[i + 1] for i, t in enumerate(model.toks[:-1])
                if t.type == tokenize.OP and t.string == '.' and model.toks[i + 1].type == tokenize.NAME]
        if len(dots) > limits['complete']:
            dots = rng.sample(dots, limits['complete'])
        for t in dots:
            org = (mi.rel, '.' + t.string, t.start)
            for x in call('complete', lambda: s.complete(*t.start), org):
                self.check_name(x, 'complete', org)
        # 6. references of definitions
        dd = list(model.defs)
        if len(dd) > limits['references']:
            dd = rng.sample(dd, limits['references'])
        for d in dd:
            org = (mi.rel, d.name, d.name_pos)
            for x in call('get_references', lambda: s.get_references(*d.name_pos, scope='file'), org):
                try:
                    isdef = x.is_definition()
                except Exception:
                    self.route_errors += 1
                    continue
                if isdef:
                    self.check_name(x, 'get_references', org)

    def check_context(self, s, mi, tokpos, col, tokstr):
        model = mi.model
        pos = (tokpos[0], col)
        self.evaluations += 1
        chain = model.body_chain(tokpos)
        strict = chain[-1] if chain else None
        hd = model.header_of(tokpos)
        pclass = model.position_class(pos)
        inp = repr((mi.rel, tokstr, pos[0], pos[1]))
        kind = 'ctx/%s/%s' % (pclass, 'header' if hd else 'body')
        if chain:
            self.nontrivial += 1
        try:
            ctx = s.get_context(pos[0], pos[1])
            ctype = ctx.type
            if ctype == 'module':
                got = None
                gotname = None
            else:
                got = (ctx.line, ctx.column)
                gotname = ctx.name
            accepted = [strict.name_pos if strict else None]
            if hd is not None:
                accepted.append(hd.name_pos)
            ok = got in accepted
            if ok and got is not None:
                dd = model.by_name_pos[got]
                if (ctype == 'class') != (dd.kind == 'class'):
                    ok = False
            if ok and got is None and self.modinfo_of(ctx) is not mi:
                ok = False
            if not ok:
                self.add(L_CTX + CLASS_SUFFIX[pclass], kind, inp,
                         'got %r want %r' % (gotname, strict.name if strict else None)
                         + ' (got type %r at %r, want the definition at %r%s)'
                         % (ctype, got, accepted[0], ' or the one whose header this is, %r' % (accepted[1],)
                            if hd else ''))
        except Exception:
            self.raised(L_CTX_RAISED, kind, repr((mi.rel, pos[0], pos[1])))
            return
        # the Name that get_context returned denotes a definition: same invariant
        self.check_name(ctx, 'get_context', (mi.rel, tokstr, pos))


# ----------------------------------------------------------------------------------------------------------------------
# tasks (each runs in a worker process)
def _init_worker(tmp):
    import jedi
    d = tempfile.mkdtemp(prefix='w%d_' % os.getpid(), dir=tmp)
    jedi.settings.cache_directory = os.path.join(d, 'cache')
    os.environ['C18_WORKER_TMP'] = d


def write_project(root, files, dirs):
    for rel, code in files:
        p = os.path.join(root, rel)
        os.makedirs(os.path.dirname(p), exist_ok=True)
        with open(p, 'w', encoding='utf8') as f:
            f.write(code)
    for d, kind in dirs.items():
        os.makedirs(os.path.join(root, d), exist_ok=True)
        if kind == 'regular':
            ini = os.path.join(root, d, '__init__.py')
            if not os.path.exists(ini):
                open(ini, 'w').close()


def limits_for(tier, generated):
    if generated:
        if tier == 'quick':
            return {'names': 400, 'derived': 25, 'tokens': 700, 'infer': 70, 'complete': 6, 'references': 5}
        return {'names': 2000, 'derived': 80, 'tokens': 3000, 'infer': 250, 'complete': 25, 'references': 20}
    if tier == 'quick':
        return {'names': 500, 'derived': 15, 'tokens': 800, 'infer': 0, 'complete': 0, 'references': 0}
    return {'names': 4000, 'derived': 60, 'tokens': 5000, 'infer': 40, 'complete': 0, 'references': 5}


def gen_project(rng, tier):
    nmods = rng.choice([3, 4, 5])
    rels, dirs = gen_layout(rng, nmods)
    # __init__ modules first (they import nothing), the others may import earlier ones
    order = sorted(range(len(rels)), key=lambda i: (not rels[i].endswith('__init__.py'), i))
    files = []
    refs = {}
    exports = []
    for i in order:
        rel = rels[i]
        imps = []
        if not rel.endswith('__init__.py') and exports:
            for dotted, rel2, ex in rng.sample(exports, min(len(exports), rng.choice([0, 1, 1, 2]))):
                relform = None
                if os.path.dirname(rel2) == os.path.dirname(rel) and os.path.dirname(rel) \
                        and not rel2.endswith('__init__.py'):
                    relform = ('.', os.path.basename(rel2)[:-3])
                imps.append((dotted, relform, ex))
        g = ProgGen(rng, imps, rng.choice([6, 10, 16]) if tier == 'quick' else rng.choice([8, 16, 30]))
        code = g.module()
        files.append((rel, code))
        refs[rel] = g.refs
        if not rel.endswith('__init__.py'):
            exports.append((dotted_of(rel), rel, g.export()))
    return files, dirs, refs


def task_generated(args):
    idx, seed, tier, fixed = args
    import jedi
    rng = random.Random(seed * 1000003 + idx)
    root = tempfile.mkdtemp(prefix='proj%d_' % idx, dir=os.environ['C18_WORKER_TMP'])
    try:
        if fixed:
            files = list(MODULES)
            dirs = {'pkg': 'regular', 'pkg/posix': 'regular'}
            refs = {rel: [] for rel, _ in files}
        else:
            files, dirs, refs = gen_project(rng, tier)
        write_project(root, files, dirs)
        models = {}
        req = []
        for rel, code in files:
            try:
                models[rel] = Model(code)
            except SyntaxError:
                raise HarnessError('harness: generated program is not valid python:\n%s\n%s'
                                   % (traceback.format_exc(limit=1), code))
            req.append({'rel': rel, 'dotted': dotted_of(rel), 'path': os.path.join(root, rel), 'must_import': True,
                        'paths': models[rel].access_paths(), 'refs': refs[rel]})
        rt = run_oracle(root, req)
        mods = [ModInfo(rel, os.path.join(root, rel), code, models[rel], rt[rel]) for rel, code in files]
        project = jedi.Project(root)
        ck = Checker(jedi, mods, rng, generated=True)
        basenames = [os.path.basename(d) for d in dirs]
        ck.dup_dirs = {b for b in basenames if basenames.count(b) > 1}
        lim = limits_for(tier, True)
        for mi in mods:
            ck.check_module(mi, project, lim)
            # direct run-time oracle for the reference variables: refN = <expr>; infer at the end of the expression
            check_refs(ck, jedi, mi, project)
        return {'evaluations': ck.evaluations, 'nontrivial': ck.nontrivial, 'violations': ck.violations,
                'sample': [rel for rel, _ in files], 'skipped': ck.skipped_fullname,
                'ignored': [ck.route_errors, ck.sandbox_artefacts, ck.unidentified],
                'size': sum(len(c) for _, c in files)}
    finally:
        shutil.rmtree(root, ignore_errors=True)


def check_refs(ck, jedi, mi, project):
    """ref = <expr> lines at module level: the run-time value of ref is a function/class; every function/class Name that
    infer() gives for the expression and that has the same simple name must carry the run-time __module__.__qualname__"""
    if not mi.rt or not mi.rt.get('refs'):
        return
    s = jedi.Script(mi.code, path=mi.path, project=project)
    lines = mi.code.split('\n')
    for i, line in enumerate(lines):
        if not line.startswith('ref') or ' = ' not in line:
            continue
        var = line.split(' = ')[0]
        fact = mi.rt['refs'].get(var)
        if fact is None:
            continue
        kind, module, qualname = fact
        want = module + '.' + qualname
        ck.evaluations += 1
        ck.nontrivial += 1
        inp = repr((mi.rel, line))
        try:
            res = s.infer(i + 1, len(line))
            for x in res:
                if x.type in ('function', 'class', 'property') and ck.modinfo_of(x) is not None \
                        and x.name == qualname.rsplit('.', 1)[-1]:
                    d = ck.modinfo_of(x).model.by_name_pos.get((x.line, x.column))
                    if d is None or not all(c.kind == 'class' for c in d.chain):
                        continue
                    if [c.name for c in d.chain] + [d.name] != qualname.split('.'):
                        # jedi resolved the expression to another definition than the interpreter: not this property
                        continue
                    if x.full_name != want:
                        ck.add(L_FULL + ' [Name from infer on an expression evaluated at run time]',
                               'refs/' + kind, inp, 'got %r want %r' % (x.full_name, want))
        except Exception:
            ck.route_errors += 1


def task_corpus(args):
    idx, seed, tier, repo, rel, importable = args
    import jedi
    rng = random.Random(seed * 1000003 + 7919 * idx + 17)
    path = os.path.join(repo, rel)
    with open(path, encoding='utf8') as f:
        code = f.read()
    model = Model(code)
    rt = None
    if importable:
        r = run_oracle(repo, [{'rel': rel, 'dotted': dotted_of(rel), 'path': path, 'must_import': False,
                               'paths': model.access_paths(), 'refs': []}])[rel]
        if 'error' not in r:
            rt = r
    mi = ModInfo(rel, path, code, model, rt)
    ck = Checker(jedi, [mi], rng, generated=False)
    ck.check_module(mi, jedi.Project(repo), limits_for(tier, False))
    return {'evaluations': ck.evaluations, 'nontrivial': ck.nontrivial, 'violations': ck.violations,
            'sample': [rel], 'skipped': ck.skipped_fullname,
            'ignored': [ck.route_errors, ck.sandbox_artefacts, ck.unidentified], 'size': len(code)}


def corpus_files(repo):
    out = []
    for p in sorted(glob.glob(os.path.join(repo, 'jedi', '**', '*.py'), recursive=True)):
        rel = os.path.relpath(p, repo)
        if 'third_party' in rel.split(os.sep):
            continue
        out.append((rel, not rel.endswith('__main__.py')))
    for p in sorted(glob.glob(os.path.join(repo, 'test', 'completion', '*.py'))):
        out.append((os.path.relpath(p, repo), False))
    good = []
    for rel, imp in out:
        try:
            with open(os.path.join(repo, rel), encoding='utf8') as f:
                code = f.read()
            if '\r' in code or '\f' in code or not code.strip():
                continue
            ast.parse(code)
        except (SyntaxError, ValueError, UnicodeDecodeError):
            continue
        good.append((rel, imp))
    return good


def _dispatch(job):
    kind, args = job
    try:
        return (task_generated if kind == 'gen' else task_corpus)(args)
    except Exception:
        return {'harness_error': '%s %r\n%s' % (kind, args[:3], traceback.format_exc())}


def run(repo, seed, tier):
    tmp = os.environ['STANDIN_TMP']
    rng = random.Random(seed)
    n_projects = 32 if tier == 'quick' else 300
    corpus = corpus_files(repo)
    n_corpus = 8 if tier == 'quick' else len(corpus)
    chosen = rng.sample(corpus, min(n_corpus, len(corpus)))
    # the long tasks (big corpus files) first
    chosen.sort(key=lambda c: (-os.path.getsize(os.path.join(repo, c[0])), c[0]))
    jobs = [('corpus', (i, seed, tier, repo, rel, imp)) for i, (rel, imp) in enumerate(chosen)]
    jobs += [('gen', (0, seed, tier, True))]
    jobs += [('gen', (i, seed, tier, False)) for i in range(1, n_projects + 1)]
    nproc = max(2, min(16, os.cpu_count() or 2))
    ctx = multiprocessing.get_context('fork')
    pool = ctx.Pool(nproc, initializer=_init_worker, initargs=(tmp,))
    try:
        results = pool.map(_dispatch, jobs, chunksize=1)
        pool.close()
    finally:
        pool.terminate()
        pool.join()
    errors = [r['harness_error'] for r in results if 'harness_error' in r]
    if errors:
        raise HarnessError('harness/oracle failure in %d task(s), first:\n%s' % (len(errors), errors[0]))
    violations = []
    counts = {}
    per_kind = {}
    evaluations = sum(r['evaluations'] for r in results)
    nontrivial = sum(r['nontrivial'] for r in results)
    for r in results:
        for v in r['violations']:
            counts[v['label']] = counts.get(v['label'], 0) + 1
            k = (v['label'], v['kind'])
            per_kind[k] = per_kind.get(k, 0) + 1
            if per_kind[k] <= 3:
                violations.append({'label': v['label'], 'input': v['input'], 'observed': v['observed']})
    # at most 60, but never drop a label completely
    if len(violations) > 60:
        kept, rest, labels = [], [], set()
        for v in violations:
            if v['label'] not in labels:
                labels.add(v['label'])
                kept.append(v)
            else:
                rest.append(v)
        violations = kept + rest[:max(0, 60 - len(kept))]
    return {'name': 'C18.nesting', 'contract': 'C18.nesting',
            'evaluations': evaluations, 'distinct_nontrivial': nontrivial,
            'rule': 'the 2 hand written modules, %d seeded random projects (3-5 generated modules each in random layouts: '
                    'top level, regular packages, __init__.py, implicit namespace directories, alias-key names; programs '
                    'with nested classes/functions/async functions/lambdas/comprehensions/decorators/properties/'
                    'inheritance/cross-module imports, indentation 1-8 or tab, one-line bodies, continuation lines) and '
                    '%d of %d corpus files of the tree under test. Oracles: ast+tokenize for the nesting (lambdas and '
                    'comprehensions are transparent; a position in a def/class header may be attributed to the def or '
                    'to its surrounding scope), a child interpreter importing every module from sys.path=[root] for '
                    '__name__/__module__/__qualname__. Checked: get_context at NAME tokens (start and interior '
                    'columns); for every Name denoting a definition of a modelled module, whatever the route '
                    '(get_names, get_context, parent(), defined_names, Name.infer/goto, infer/goto at identifiers, '
                    'complete after dots, get_references, infer on module-level reference expressions evaluated at run '
                    'time): parent() chain == lexical chain ending at the module whose full_name is the imported '
                    '__name__, and full_name == run-time __module__.__qualname__ for definitions whose enclosing '
                    'scopes are all classes. Samples per module are drawn with random.Random(seed).sample. Not counted: '
                    '%d API calls other than get_context/parent()/full_name that raised, %d exceptions caused by the '
                    'empty typeshed of this sandbox, %d Names whose position is not an identifier of their module.'
                    % (n_projects, len(chosen), len(corpus), sum(r['ignored'][0] for r in results),
                       sum(r['ignored'][1] for r in results), sum(r['ignored'][2] for r in results)),
            'samples': [s for r in results[:4] for s in r['sample']] + [rel for rel, _ in chosen[:4]],
            'violations': violations,
            'violation_counts': counts}
