"""C18 bounded stand-in: get_context / parent() / full_name on nested programs vs the lexical nesting computed with ast."""
import ast
import os
import shutil
import tempfile
import traceback

MODULES = [
    ('pkg/mod.py',
     'import os\n\nclass A:\n    x = [i * 2 for i in range(3) if i]\n    class B:\n        y = 1\n        class C:\n'
     '            z = {k: k for k in range(2)}\n            def deep(self, p):\n                q = p\n                return q\n'
     '        def mb(self):\n            def inner(t):\n                u = t\n                return u\n            return inner\n'
     '    def ma(self, arg):\n        val = arg\n        return val\n\ndef top(a, b=2):\n    loc = a + b\n'
     '    class InFunc:\n        w = 3\n        def m(self):\n            return self.w\n    return loc\n\nmodvar = top(1)\n'),
    ('pkg/posix/_socket.py',
     'class genericpath:\n    posix = 1\n    class _io:\n        def _socket(self):\n            item = 1\n            return item\n'
     '    def _functools(self):\n        thing = 2\n        return thing\n\ndef posixpath():\n    v = 1\n    return v\n'),
]


def analyse(code):
    tree = ast.parse(code)
    parents = {}
    for n in ast.walk(tree):
        for ch in ast.iter_child_nodes(n):
            parents[ch] = n
    defs = [n for n in ast.walk(tree) if isinstance(n, (ast.FunctionDef, ast.ClassDef))]

    def chain(n):
        """enclosing defs, outermost first, for a node that lies in the BODY of each"""
        out = []
        cur = n
        while cur in parents:
            par = parents[cur]
            if isinstance(par, (ast.FunctionDef, ast.ClassDef)):
                if cur in par.body:
                    out.append(par)
                else:
                    return None     # header position: unspecified
            elif isinstance(par, (ast.Lambda, ast.ListComp, ast.SetComp, ast.DictComp, ast.GeneratorExp)):
                pass
            cur = par
        return list(reversed(out))
    return tree, defs, chain, parents


def name_pos(code, d):
    line = code.split('\n')[d.lineno - 1]
    kw = 'def ' if isinstance(d, ast.FunctionDef) else 'class '
    col = line.index(kw, d.col_offset) + len(kw)
    return d.lineno, col


def run(repo, seed, tier):
    import jedi
    violations = []
    evaluations = 0
    root = tempfile.mkdtemp(prefix='nest_', dir=os.environ['STANDIN_TMP'])
    try:
        for rel, code in MODULES:
            p = os.path.join(root, rel)
            os.makedirs(os.path.dirname(p), exist_ok=True)
            open(p, 'w').write(code)
            d = os.path.dirname(p)
            while d != root:
                open(os.path.join(d, '__init__.py'), 'a').close()
                d = os.path.dirname(d)
        project = jedi.Project(root)
        for rel, code in MODULES:
            path = os.path.join(root, rel)
            dotted = rel[:-3].replace('/', '.')
            s = jedi.Script(code, path=path, project=project)
            tree, defs, chain, parents = analyse(code)
            names = {(n.line, n.column): n for n in s.get_names(all_scopes=True, definitions=True)}
            for d in defs:
                evaluations += 1
                pos = name_pos(code, d)
                n = names.get(pos)
                if n is None:
                    violations.append({'label': 'definition not reported by get_names', 'input': repr((rel, d.name, pos)),
                                       'observed': 'missing'})
                    continue
                ch = chain(d)
                try:
                    # parent() chain
                    got = []
                    cur = n.parent()
                    while cur is not None and cur.type != 'module':
                        got.append(cur.name)
                        cur = cur.parent()
                    want = [c.name for c in reversed(ch)]
                    if got != want:
                        violations.append({'label': 'parent() chain is not the lexically enclosing definitions',
                                           'input': repr((rel, d.name, pos)), 'observed': 'got %r want %r' % (got, want)})
                    if all(isinstance(c, ast.ClassDef) for c in ch):
                        wantfn = '.'.join([dotted] + [c.name for c in ch] + [d.name])
                        if n.full_name != wantfn:
                            violations.append({'label': 'full_name is not module path + __qualname__',
                                               'input': repr((rel, d.name, pos)),
                                               'observed': 'got %r want %r' % (n.full_name, wantfn)})
                except Exception:
                    violations.append({'label': 'parent/full_name raised', 'input': repr((rel, d.name)),
                                       'observed': traceback.format_exc(limit=3)})
            # get_context on identifier positions in bodies
            for node in ast.walk(tree):
                if not isinstance(node, ast.Name):
                    continue
                ch = chain(node)
                if ch is None:
                    continue
                # comprehension scopes: only identifiers outside the first iterable are inside the comprehension;
                # get_context is about functions/classes, so they count for the enclosing def/class anyway
                evaluations += 1
                try:
                    ctx = s.get_context(node.lineno, node.col_offset)
                    want = ch[-1].name if ch else None
                    got = ctx.name if ctx.type != 'module' else None
                    if got != want:
                        violations.append({'label': 'get_context is not the innermost enclosing function/class',
                                           'input': repr((rel, node.id, node.lineno, node.col_offset)),
                                           'observed': 'got %r want %r' % (got, want)})
                except Exception:
                    violations.append({'label': 'get_context raised', 'input': repr((rel, node.lineno, node.col_offset)),
                                       'observed': traceback.format_exc(limit=3)})
    finally:
        shutil.rmtree(root, ignore_errors=True)
    seen = {}
    for v in violations:
        seen.setdefault(v['label'], []).append(v)
    return {'name': 'C18.nesting', 'contract': 'C18.nesting',
            'evaluations': evaluations, 'distinct_nontrivial': evaluations,
            'rule': '%d modules in a package (classes nested 3 deep, functions in classes in functions, class-level '
                    'comprehensions, names spelled like stdlib alias keys); every def/class: parent() chain and full_name '
                    'vs ast nesting; every identifier in a body: get_context vs innermost enclosing def/class; header '
                    'positions skipped' % len(MODULES),
            'samples': [m[0] for m in MODULES], 'violations': violations[:300],
            'violation_counts': {k: len(v) for k, v in seen.items()}}
