"""C19 bounded stand-in: Project.search / complete_search over enumerated small project trees.

Contract: found definitions == the definitions planted outside ignored places (ignored folder names, folders named by
.gitignore entries at two levels); nothing from ignored places; Script.search agrees with filtering get_names."""
import itertools
import os
import shutil
import tempfile
import traceback

IGNORED = ['venv', '.venv', '.tox', '.mypy_cache', '__pycache__']


def build(root, spec):
    """spec: list of (relative dir, [(file name, function names)]) ; plus .gitignore contents"""
    for d, files, gitignore in spec:
        p = os.path.join(root, d)
        os.makedirs(p, exist_ok=True)
        for fn, names in files:
            with open(os.path.join(p, fn), 'w') as f:
                for n in names:
                    f.write('def %s(): pass\n' % n)
        if gitignore is not None:
            with open(os.path.join(p, '.gitignore'), 'w') as f:
                f.write(gitignore)


def layouts(tier):
    """(spec, expected visible function names, hidden names)"""
    out = []
    dirs_a = ['a', 'ab', 'a/build', 'ab/build', 'a/sub/build', 'b']
    k = 0
    for ign in IGNORED:
        for git_a in (None, 'build\n', '/build\n', 'build/\n# c\n!x\n*.pyc\n'):
            for git_root in (None, 'b\n', '/ab/build\n'):
                k += 1
                spec = []
                visible, hidden = set(), set()

                def add(d, name, vis):
                    spec_files.setdefault(d, []).append(('m_%s.py' % name, ['fn_' + name]))
                    (visible if vis else hidden).add('fn_' + name)
                spec_files = {}
                ignored_dirs = set()
                if git_a in ('build\n', 'build/\n# c\n!x\n*.pyc\n'):
                    ignored_dirs |= {'a/build', 'a/sub/build'}
                if git_a == '/build\n':
                    ignored_dirs |= {'a/build'}
                if git_root == 'b\n':
                    ignored_dirs |= {'b'}
                if git_root == '/ab/build\n':
                    ignored_dirs |= {'ab/build'}
                for d in dirs_a:
                    nm = d.replace('/', '_')
                    vis = not any(d == i or d.startswith(i + '/') for i in ignored_dirs)
                    add(d, nm, vis)
                add(ign, 'in_' + ign.strip('._'), False)
                add('a/' + ign, 'nested_' + ign.strip('._'), False)
                add('', 'top', True)
                gi = {'a': git_a, '': git_root}
                for d in set(list(spec_files) + list(gi)):
                    spec.append((d, spec_files.get(d, []), gi.get(d)))
                out.append((spec, visible, hidden))
    if tier == 'quick':
        # every (.gitignore in a/, .gitignore in the root) combination once, the ignored folder name rotating
        out = [out[(i % len(IGNORED)) * 12 + i] for i in range(12)]
    return out


def run(repo, seed, tier):
    import jedi
    violations = []
    evaluations = 0
    samples = []
    for spec, visible, hidden in layouts(tier):
        root = tempfile.mkdtemp(prefix='proj_', dir=os.environ['STANDIN_TMP'])
        try:
            build(root, spec)
            project = jedi.Project(root)
            evaluations += 1
            try:
                found = {n.name for n in project.complete_search('fn_')}
                exact = set()
                for name in sorted(visible | hidden):
                    if [n for n in project.search(name) if n.name == name]:
                        exact.add(name)
            except Exception:
                violations.append({'label': 'project search raised', 'input': repr(spec),
                                   'observed': traceback.format_exc(limit=4)})
                continue
            desc = sorted((d, g) for d, _, g in spec if g)
            if len(samples) < 3:
                samples.append({'gitignores': desc, 'visible': sorted(visible), 'hidden': sorted(hidden)})
            for label, got in (('complete_search', found), ('search', exact)):
                if visible - got:
                    violations.append({'label': '%s misses definitions outside ignored places' % label,
                                       'input': repr(desc), 'observed': 'missing %r' % sorted(visible - got)})
                if got & hidden:
                    violations.append({'label': '%s reports definitions from ignored places' % label,
                                       'input': repr(desc), 'observed': 'reported %r' % sorted(got & hidden)})
        finally:
            shutil.rmtree(root, ignore_errors=True)
    # several files that map to one dotted module name: each file's definition is reported
    root = tempfile.mkdtemp(prefix='proj_', dir=os.environ['STANDIN_TMP'])
    try:
        files = {'pkg/__init__.py': '', 'pkg/mod.py': 'def dup_fn(): pass\n', 'pkg/mod.pyi': 'def dup_fn(): ...\n',
                 'tool.py': 'def dup_tool(): pass\n', 'tool/__init__.py': 'def dup_tool(): pass\n',
                 'one/same.py': 'def dup_same(): pass\n', 'two/same.py': 'def dup_same(): pass\n'}
        for rel, text in files.items():
            os.makedirs(os.path.dirname(os.path.join(root, rel)), exist_ok=True)
            with open(os.path.join(root, rel), 'w') as f:
                f.write(text)
        project = jedi.Project(root)
        for name, want in (('dup_fn', {'pkg/mod.py', 'pkg/mod.pyi'}), ('dup_tool', {'tool.py', 'tool/__init__.py'}),
                           ('dup_same', {'one/same.py', 'two/same.py'})):
            for label, fn in (('search', lambda: project.search(name)),
                              ('complete_search', lambda: project.complete_search(name[:-1]))):
                evaluations += 1
                got = {os.path.relpath(str(n.module_path), root) for n in fn() if n.name == name and n.module_path}
                if want - got:
                    violations.append({'label': '%s misses definitions outside ignored places' % label,
                                       'input': 'files %r, name %r' % (sorted(want), name),
                                       'observed': 'reported only from %r' % sorted(got)})
    finally:
        shutil.rmtree(root, ignore_errors=True)
    # Script.search agrees with filtering get_names
    for code in ('def alpha(): pass\nclass Alpha:\n    def alpha(self): pass\nalpha = 1\nbeta = alpha\n',
                 'import os\nx = 1\ndef X(): pass\n'):
        s = jedi.Script(code)
        for q in ('alpha', 'Alpha', 'x', 'def alpha', 'class Alpha'):
            for all_scopes in (False, True):
                evaluations += 1
                typ, _, nm = q.rpartition(' ')
                typ = {'def': 'function'}.get(typ, typ)
                got = sorted((n.name, n.line, n.column) for n in s.search(q, all_scopes=all_scopes))
                want = sorted((n.name, n.line, n.column) for n in s.get_names(all_scopes=all_scopes)
                              if n.name.lower() == nm.lower() and (not typ or n.type == typ))
                if got != want:
                    violations.append({'label': 'Script.search disagrees with filtering get_names',
                                       'input': repr((code, q, all_scopes)), 'observed': 'got %r want %r' % (got, want)})
    seen = set()
    uniq = []
    for v in violations:
        if v['label'] not in seen:
            seen.add(v['label'])
            uniq.append(v)
    return {'name': 'C19.project-search', 'contract': 'C19.Project.search',
            'evaluations': evaluations, 'distinct_nontrivial': evaluations,
            'rule': 'project trees over directories a, ab, a/build, ab/build, a/sub/build, b + each ignored folder name at '
                    'two levels, x .gitignore variants in a/ (none, relative, anchored, with comments/negation/glob) x in '
                    'the root (none, relative, anchored); one module with one function per directory; expected = '
                    'functions outside ignored places', 'samples': samples, 'violations': violations[:300]}
