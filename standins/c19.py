"""C19 bounded stand-in: Project.search / complete_search over generated project trees.

Contract: found definitions == the definitions planted outside ignored places (ignored folder names, folders named by
.gitignore entries at several levels); nothing from ignored places; every module / package so named; Script.search
agrees with filtering get_names.

Two parts:
  * the enumerated ignore layouts of the first version (kept unchanged, all of them run in both tiers);
  * seeded random project trees (<= ~30 Python files): nested packages, namespace folders, folders with odd names,
    ignored folder names and look-alikes at every depth, .gitignore files at several levels with relative / anchored /
    trailing-slash / multi-component patterns, files in several encodings and newline conventions, identifiers from a
    small pool (ASCII and non-ASCII, case variants, shared prefixes) so that the same spelling occurs as function,
    class, statement, parameter, method, local, module name and package name, module files that define their own
    name, names defined several times (try/except fallbacks, if/else, re-binding, locals shadowing globals).
    Queries: every identifier / prefix / 'def x' / 'class x' / 'head.attr' x {search, complete_search} x {all_scopes}.
Oracles: the planted definitions (positions known by construction, cross-checked against Python's own `ast` of the
bytes and by executing the file), a model of the .gitignore subset cross-checked against `git check-ignore`, and for
Script.search the filtered Script.get_names()."""
import ast
import json
import os
import random
import shutil
import subprocess
import tempfile
import traceback
import unicodedata
import multiprocessing as mp

IGNORED = ['venv', '.venv', '.tox', '.mypy_cache', '__pycache__']


# --------------------------------------------------------------------------------------------------------------------
# part 1: the enumerated layouts of the first version
# --------------------------------------------------------------------------------------------------------------------
def build(root, spec):
    """spec: list of (relative dir, [(file name, function names)]) ; plus .gitignore contents"""
    for d, files, gitignore in spec:
        p = os.path.join(root, d)
        os.makedirs(p, exist_ok=True)
        for fn, names in files:
            with open(os.path.join(p, fn), 'w') as f:
                for n in names:
                    f.write('def %s(): pass\n' % n)
        if gitignore is not None:
            with open(os.path.join(p, '.gitignore'), 'w') as f:
                f.write(gitignore)


def layouts(tier):
    """(spec, expected visible function names, hidden names)"""
    out = []
    dirs_a = ['a', 'ab', 'a/build', 'ab/build', 'a/sub/build', 'b']
    k = 0
    for ign in IGNORED:
        for git_a in (None, 'build\n', '/build\n', 'build/\n# c\n!x\n*.pyc\n'):
            for git_root in (None, 'b\n', '/ab/build\n'):
                k += 1
                spec = []
                visible, hidden = set(), set()

                def add(d, name, vis):
                    spec_files.setdefault(d, []).append(('m_%s.py' % name, ['fn_' + name]))
                    (visible if vis else hidden).add('fn_' + name)
                spec_files = {}
                ignored_dirs = set()
                if git_a in ('build\n', 'build/\n# c\n!x\n*.pyc\n'):
                    ignored_dirs |= {'a/build', 'a/sub/build'}
                if git_a == '/build\n':
                    ignored_dirs |= {'a/build'}
                if git_root == 'b\n':
                    ignored_dirs |= {'b'}
                if git_root == '/ab/build\n':
                    ignored_dirs |= {'ab/build'}
                for d in dirs_a:
                    nm = d.replace('/', '_')
                    vis = not any(d == i or d.startswith(i + '/') for i in ignored_dirs)
                    add(d, nm, vis)
                add(ign, 'in_' + ign.strip('._'), False)
                add('a/' + ign, 'nested_' + ign.strip('._'), False)
                add('', 'top', True)
                gi = {'a': git_a, '': git_root}
                for d in sorted(set(list(spec_files) + list(gi))):
                    spec.append((d, spec_files.get(d, []), gi.get(d)))
                out.append((spec, visible, hidden))
    return out


def _legacy_task(arg):
    """the checks of the first version on the layouts[lo:hi] (and, for lo == 0, its fixed trees)"""
    lo, hi = arg
    import jedi
    jedi.settings.cache_directory = os.path.join(os.environ['STANDIN_TMP'], 'cache_%d' % os.getpid())
    violations = []
    evaluations = 0
    samples = []
    for spec, visible, hidden in layouts('thorough')[lo:hi]:
        root = tempfile.mkdtemp(prefix='proj_', dir=os.environ['STANDIN_TMP'])
        try:
            build(root, spec)
            project = jedi.Project(root)
            evaluations += 1
            try:
                found = {n.name for n in project.complete_search('fn_')}
                exact = set()
                for name in sorted(visible | hidden):
                    if [n for n in project.search(name) if n.name == name]:
                        exact.add(name)
            except Exception:
                violations.append({'label': 'project search raised', 'input': repr(spec),
                                   'observed': traceback.format_exc(limit=4), 'kind': 'layout'})
                continue
            desc = sorted((d, g) for d, _, g in spec if g)
            if len(samples) < 1:
                samples.append({'gitignores': desc, 'visible': sorted(visible), 'hidden': sorted(hidden)})
            for label, got in (('complete_search', found), ('search', exact)):
                if visible - got:
                    violations.append({'label': '%s misses definitions outside ignored places' % label,
                                       'input': repr(desc), 'observed': 'missing %r' % sorted(visible - got),
                                       'kind': 'layout'})
                if got & hidden:
                    violations.append({'label': '%s reports definitions from ignored places' % label,
                                       'input': repr(desc), 'observed': 'reported %r' % sorted(got & hidden),
                                       'kind': 'layout'})
        finally:
            shutil.rmtree(root, ignore_errors=True)
    if lo != 0:
        return {'evaluations': evaluations, 'nontrivial': evaluations, 'violations': violations, 'samples': samples}
    # several files that map to one dotted module name: each file's definition is reported
    root = tempfile.mkdtemp(prefix='proj_', dir=os.environ['STANDIN_TMP'])
    try:
        files = {'pkg/__init__.py': '', 'pkg/mod.py': 'def dup_fn(): pass\n', 'pkg/mod.pyi': 'def dup_fn(): ...\n',
                 'tool.py': 'def dup_tool(): pass\n', 'tool/__init__.py': 'def dup_tool(): pass\n',
                 'one/same.py': 'def dup_same(): pass\n', 'two/same.py': 'def dup_same(): pass\n'}
        for rel, text in files.items():
            os.makedirs(os.path.dirname(os.path.join(root, rel)), exist_ok=True)
            with open(os.path.join(root, rel), 'w') as f:
                f.write(text)
        project = jedi.Project(root)
        for name, want in (('dup_fn', {'pkg/mod.py', 'pkg/mod.pyi'}), ('dup_tool', {'tool.py', 'tool/__init__.py'}),
                           ('dup_same', {'one/same.py', 'two/same.py'})):
            for label, fn in (('search', lambda: project.search(name)),
                              ('complete_search', lambda: project.complete_search(name[:-1]))):
                evaluations += 1
                got = {os.path.relpath(str(n.module_path), root) for n in fn() if n.name == name and n.module_path}
                if want - got:
                    violations.append({'label': '%s misses definitions outside ignored places' % label,
                                       'input': 'files %r, name %r' % (sorted(want), name),
                                       'observed': 'reported only from %r' % sorted(got), 'kind': 'same dotted name'})
    finally:
        shutil.rmtree(root, ignore_errors=True)
    # Script.search agrees with filtering get_names
    for code in ('def alpha(): pass\nclass Alpha:\n    def alpha(self): pass\nalpha = 1\nbeta = alpha\n',
                 'import os\nx = 1\ndef X(): pass\n'):
        s = jedi.Script(code)
        for q in ('alpha', 'Alpha', 'x', 'def alpha', 'class Alpha'):
            for all_scopes in (False, True):
                evaluations += 1
                typ, _, nm = q.rpartition(' ')
                typ = {'def': 'function'}.get(typ, typ)
                got = sorted((n.name, n.line, n.column) for n in s.search(q, all_scopes=all_scopes))
                want = sorted((n.name, n.line, n.column) for n in s.get_names(all_scopes=all_scopes)
                              if n.name.lower() == nm.lower() and (not typ or n.type == typ))
                if got != want:
                    violations.append({'label': 'Script.search disagrees with filtering get_names',
                                       'input': repr((code, q, all_scopes)), 'observed': 'got %r want %r' % (got, want),
                                       'kind': 'fixed buffer'})
    return {'evaluations': evaluations, 'nontrivial': evaluations, 'violations': violations, 'samples': samples}


# --------------------------------------------------------------------------------------------------------------------
# part 2: generated trees
# --------------------------------------------------------------------------------------------------------------------
# stems that are no module of the standard library / site-packages, so that the sys.path part of the search is silent
ASCII_STEMS = ['zorb', 'quux', 'vexa', 'blip', 'fnord', 'kiwu']
LATIN1_STEMS = ['café', 'über', 'maß', 'año', 'naïf', 'élan', 'größe']      # encodable in latin-1 / cp1252
WIDE_STEMS = ['λx', 'данные', '変数', 'ěšč']                                  # only in UTF-8 files
PKG_DIRS = ['a', 'ab', 'api', 'api_gateway', 'core', 'sub']
LOOKALIKE_DIRS = ['venv2', 'myvenv', '.venvs', 'tox', '.toxic', '__pycache__2', 'mypy_cache', 'Venv', '.Tox',
                  'venv.bak', '_venv']
TARGET_DIRS = ['build', 'out', 'gen']
TARGET_LOOKALIKES = ['build2', 'abuild', 'outer', 'Build']
ODD_DIRS = ['my-dir', 'dir with space', 'päck', '.hidden', 'v1.2']
ENCODINGS = ['utf-8', 'utf-8', 'utf-8', 'utf-8-sig', 'latin-1', 'cp1252', 'utf-8-decl', 'iso-8859-15']


def _cap(s):
    c = s[0].upper() + s[1:]
    return c if c != s and len(c) == len(s) else None


def _check_ident(n):
    if not n.isidentifier() or unicodedata.normalize('NFKC', n) != n:
        raise RuntimeError('harness: %r is no NFKC-stable identifier' % n)
    return n


class Pool:
    """the identifiers of one tree: general identifiers (any kind of definition, file and folder names) and head
    names (only ever bound to instances of classes of the same file, or used as file / folder names; the first part
    of dotted searches)"""

    def __init__(self, rng):
        stems = rng.sample(ASCII_STEMS, 2)
        r = rng.random()
        if r < 0.45:
            stems.append(rng.choice(LATIN1_STEMS))
        elif r < 0.65:
            stems.append(rng.choice(WIDE_STEMS))
        elif r < 0.8:
            stems += [rng.choice(LATIN1_STEMS), rng.choice(WIDE_STEMS)]
        else:
            stems.append(rng.choice(ASCII_STEMS))
        stems = list(dict.fromkeys(stems))
        self.stems = stems
        idents = []
        for s in stems:
            idents += [s, s + '_path', s + '2', 'x_' + s]
            if _cap(s):
                idents.append(_cap(s))
        # one identifier that ends in a non-ASCII letter and one that begins with one, whatever the stems are
        if rng.random() < 0.5:
            idents += [stems[0] + '_é', 'ß_' + stems[1]]
        self.idents = [_check_ident(i) for i in dict.fromkeys(idents)]
        self.heads = [_check_ident(h) for h in [stems[0] + '_cfg', 'cfg_' + stems[-1], stems[-1] + '_obj']]
        self.members = self.idents + [_check_ident(m) for m in ['run_' + stems[0], stems[-1] + '_opt', 'level']]


class Emitter:
    """source text with the position of every binding"""

    def __init__(self):
        self.lines = []
        self.defs = []      # dict(name, line, col, type, top, req, flow)
        self.classes = {}   # top-level class name -> dict(members=[defs], base=name|None, n=number of definitions)
        self.heads = []     # dict(name, cls, top)

    def emit(self, indent, *parts, flow=False):
        s = ' ' * indent
        made = []
        for p in parts:
            if isinstance(p, str):
                s += p
            else:
                name, typ, top, req = p
                d = {'name': name, 'line': len(self.lines) + 1, 'col': len(s), 'type': typ, 'top': top, 'req': req,
                     'flow': flow or indent > 0}
                self.defs.append(d)
                made.append(d)
                s += name
        self.lines.append(s)
        return made


def D(name, typ, top, req=True):
    return (name, typ, top, req)


class SourceGen:
    def __init__(self, rng, pool, must=None):
        self.rng, self.pool, self.em = rng, pool, Emitter()
        self.must = list(must or [])   # identifiers that have to be defined at the top level of this file
        self.reserved = set()          # names of classes that instances are made of: never bound again

    def free(self):
        return [i for i in self.pool.idents if i not in self.reserved]

    def ident(self, top=True):
        while self.must and top:
            name = self.must.pop()
            if name not in self.reserved:
                return name
        return self.rng.choice(self.free())

    def idents(self, n):
        return self.rng.sample(self.free(), n)

    # ---- blocks -----------------------------------------------------------------------------------------------
    def func(self, indent, top, depth, name=None):
        rng, em = self.rng, self.em
        name = name or self.ident(top and indent == 0)
        kw = rng.choice(['def ', 'def ', 'async def '])
        params = self.idents(rng.randint(0, 2))
        parts = [kw, D(name, 'function', top), '(']
        for i, p in enumerate(params):
            parts += [', ' if i else '', rng.choice(['', '', '*']) if i == len(params) - 1 else '', D(p, 'param', False)]
        parts.append('):')
        em.emit(indent, *parts)
        loc = rng.choice(self.free())
        em.emit(indent + 4, D(loc, 'statement', False), ' = ', params[0] if params else '1')
        if depth < 2 and rng.random() < 0.35:
            (self.func if rng.random() < 0.6 else self.klass)(indent + 4, False, depth + 1)
        if rng.random() < 0.3:
            self.head_site(indent + 4, False)
        em.emit(indent + 4, 'return ', loc)

    def klass(self, indent, top, depth, name=None):
        rng, em = self.rng, self.em
        name = name or self.ident(top and indent == 0)
        base = None
        if top and indent == 0 and self.usable_classes() and rng.random() < 0.4:
            base = rng.choice(self.usable_classes())
        em.emit(indent, 'class ', D(name, 'class', top), '(%s)' % base if base else '', ':')
        taken = set()
        b = base
        base_init = False
        while b:
            taken |= {m['name'] for m in em.classes[b]['members']}
            base_init = base_init or em.classes[b]['init']
            b = em.classes[b]['base']
        members = []
        free = [m for m in self.pool.members if m not in taken and m not in self.reserved]
        for m in rng.sample(free, min(len(free), rng.randint(1, 4))):
            kind = rng.choice(['attr', 'attr', 'meth', 'meth', 'inner', 'annattr'])
            if kind == 'attr':
                members += em.emit(indent + 4, D(m, 'statement', False), ' = 1')
            elif kind == 'annattr':
                members += em.emit(indent + 4, D(m, 'statement', False), ': int = 2')
            elif kind == 'meth':
                p = rng.choice(self.free())
                made = em.emit(indent + 4, rng.choice(['def ', 'async def ']), D(m, 'function', False), '(',
                               D('self', 'param', False), ', ', D(p, 'param', False), '):')
                members.append(made[0])
                em.emit(indent + 8, 'return ', p)
            elif depth < 2:
                members += em.emit(indent + 4, 'class ', D(m, 'class', False), ':')[:1]
                em.emit(indent + 8, D(rng.choice(self.free()), 'statement', False), ' = 3')
            else:
                members += em.emit(indent + 4, D(m, 'statement', False), ' = 4')
        init = False
        if rng.random() < 0.35 and not base_init:     # (an __init__ that hides the one of the base would un-set its attributes)
            free = [m for m in self.pool.members if m not in taken and m not in {x['name'] for x in members}
                    and m not in self.reserved]
            if free:
                init = True
                members += em.emit(indent + 4, 'def ', D('__init__', 'function', False), '(',
                                   D('self', 'param', False), '):')[:1]
                # an attribute of the instances, not a name binding: allowed in the answers, never required as a
                # plain definition; required as a member of the instance in dotted searches
                members += em.emit(indent + 8, 'self.', D(rng.choice(free), 'statement', False, False), ' = 5')
        if top and indent == 0:
            if name in em.classes:
                em.classes[name]['n'] += 1     # re-defined: not used for instances
            else:
                em.classes[name] = {'members': members, 'base': base, 'n': 1, 'init': init}

    def usable_classes(self):
        """top-level classes whose name, and the name of each base, is bound exactly once so far"""
        def once(c):
            while c:
                if self.em.classes[c]['n'] != 1 or sum(1 for d in self.em.defs if d['name'] == c) != 1:
                    return False
                c = self.em.classes[c]['base']
            return True
        return sorted(c for c in self.em.classes if once(c))

    def head_site(self, indent, top, name=None):
        """bind a head name to instances of classes of this file: plainly, in try/except, in if/else, re-bound"""
        rng, em = self.rng, self.em
        classes = self.usable_classes()
        if not classes:
            return False
        h = name or rng.choice(self.pool.heads)
        form = rng.choice(['plain', 'plain', 'try', 'ifelse', 'rebind']) if len(classes) > 1 else 'plain'
        ks = rng.sample(classes, 2) if len(classes) > 1 else classes

        def site(ind, k, flow):
            em.emit(ind, D(h, 'statement', top), ' = %s()' % k, flow=flow)
            em.heads.append({'name': h, 'cls': k, 'top': top})
            while k:
                self.reserved.add(k)
                k = em.classes[k]['base']
        if form == 'plain':
            site(indent, ks[0], False)
        elif form == 'rebind':
            site(indent, ks[0], True)
            site(indent, ks[1], True)
        elif form == 'try':
            em.emit(indent, 'try:')
            em.emit(indent + 4, 'import ', D('nolib_%d' % rng.randint(1, 3), 'module', top, False), flow=True)
            site(indent + 4, ks[0], True)
            em.emit(indent, 'except ImportError:')
            site(indent + 4, ks[1], True)
        else:
            em.emit(indent, 'if len(__name__) > 3:')
            site(indent + 4, ks[0], True)
            em.emit(indent, 'else:')
            site(indent + 4, ks[1], True)
        return True

    def statement(self):
        rng, em = self.rng, self.em
        kind = rng.choice(['assign', 'assign', 'ann', 'bare', 'tuple', 'chain', 'aug', 'for', 'with', 'ifelse',
                           'except', 'walrus', 'lambda', 'comp', 'import', 'mention', 'reference', 'attr'])
        a = self.ident()
        b = rng.choice([i for i in self.free() if i != a])
        if kind == 'assign':
            em.emit(0, D(a, 'statement', True), ' = ', rng.choice(['1', '"%s"' % b, '[1, 2]', 'None']))
        elif kind == 'ann':
            em.emit(0, D(a, 'statement', True), ': int = 1')
        elif kind == 'bare':
            em.emit(0, D(a, 'statement', True, False), ': int')     # a declaration, nothing is bound
        elif kind == 'tuple':
            em.emit(0, D(a, 'statement', True), ', (', D(b, 'statement', True), ', ', D('_u', 'statement', True),
                    ') = 1, (2, 3)')
        elif kind == 'chain':
            em.emit(0, D(a, 'statement', True), ' = ', D(b, 'statement', True), ' = 4')
        elif kind == 'aug':
            em.emit(0, D(a, 'statement', True), ' = 1')
            em.emit(0, D(a, 'statement', True), ' += 1')
        elif kind == 'for':
            em.emit(0, 'for ', D(a, 'statement', True), ' in (1, 2):', flow=True)
            em.emit(4, D(b, 'statement', True), ' = 1', flow=True)
        elif kind == 'with':
            em.emit(0, 'with open(__file__) as ', D(a, 'statement', True), ':', flow=True)
            em.emit(4, 'pass')
        elif kind == 'ifelse':
            em.emit(0, 'if len(__name__) > 3:')
            em.emit(4, D(a, 'statement', True), ' = 1', flow=True)
            em.emit(0, 'else:')
            em.emit(4, D(a, 'statement', True), ' = 2', flow=True)
        elif kind == 'except':
            em.emit(0, 'try:')
            em.emit(4, D(b, 'statement', True), ' = 1 // 0', flow=True)
            em.emit(0, 'except ZeroDivisionError as ', D(a, 'statement', True), ':', flow=True)
            em.emit(4, 'pass')
        elif kind == 'walrus':
            em.emit(0, 'if (', D(a, 'statement', True), ' := 1):', flow=True)
            em.emit(4, 'pass')
        elif kind == 'lambda':
            em.emit(0, D(a, 'statement', True), ' = lambda ', D(b, 'param', False), ': ', b)
        elif kind == 'comp':
            em.emit(0, D(a, 'statement', True), ' = [', b, ' for ', D(b, 'statement', False), ' in (1, 2)]')
        elif kind == 'import':
            # an optional dependency: the import binds a name, but it is no definition of the project
            em.emit(0, 'try:')
            if rng.random() < 0.5:
                em.emit(4, 'import ', D(a, 'module', True, False), flow=True)
            else:
                em.emit(4, 'import os as ', D(a, 'module', True, False), flow=True)
            em.emit(0, 'except ImportError:')
            em.emit(4, 'pass')
        elif kind == 'mention':
            em.emit(0, '# %s and %s are only mentioned here: def %s(): pass' % (a, b, a))
            em.emit(0, '"""class %s: %s = 1"""' % (b, a))
        elif kind == 'reference':
            em.emit(0, 'if 0:')
            em.emit(4, 'print(%s, %s.%s)' % (a, b, a))
        elif kind == 'attr':
            if self.usable_classes():
                k = rng.choice(self.usable_classes())
                # an attribute assignment: no name binding
                em.emit(0, k, '.', D(a, 'statement', True, False), ' = 1')
                self.em.classes[k].setdefault('extra', []).append(a)

    def module(self, n_items, want_head=None):
        rng = self.rng
        if rng.random() < 0.3:
            self.em.emit(0, '"""docstring that mentions %s"""' % rng.choice(self.pool.idents))
        if want_head:
            self.klass(0, True, 0)
            self.klass(0, True, 0)
        for _ in range(n_items):
            r = rng.random()
            if self.must and r < 0.8:
                r = rng.choice([0.1, 0.3, 0.6])
            if r < 0.25:
                self.func(0, True, 0)
            elif r < 0.45:
                self.klass(0, True, 0)
            elif r < 0.58:
                self.head_site(0, True)
            else:
                self.statement()
        if want_head:
            self.head_site(0, True, name=want_head)
        while self.must:
            name = self.must.pop()
            if name not in self.reserved:
                self.em.emit(0, D(name, 'statement', True), ' = 0')
        for h in self.em.heads:
            # which class a name means where it is used is only beyond doubt if the class (and each base) is the
            # one binding of its name in the file
            chain, k = [], h['cls']
            while k:
                chain.append(k)
                k = self.em.classes[k]['base']
            h['weak'] = any(sum(1 for d in self.em.defs if d['name'] == k) != 1 for k in chain)
        return self.em


def encode_source(rng, em, simple=False):
    """-> (bytes, text as Python decodes it, description); PEP 263 declarations, BOM, CRLF"""
    enc = 'utf-8' if simple else rng.choice(ENCODINGS)
    newline = '\n' if simple or rng.random() < 0.8 else '\r\n'
    lines = list(em.lines)
    shift = 0
    if enc in ('latin-1', 'cp1252', 'iso-8859-15', 'utf-8-decl'):
        codec = 'utf-8' if enc == 'utf-8-decl' else enc
        try:
            '\n'.join(lines).encode(codec)
        except UnicodeEncodeError:
            enc, codec = 'utf-8', 'utf-8'
        else:
            decl = rng.choice(['# -*- coding: %s -*-', '# coding=%s', '# vim: set fileencoding=%s :']) % codec
            if rng.random() < 0.3:
                lines = ['#!/usr/bin/env python', decl] + lines
                shift = 2
            else:
                lines = [decl] + lines
                shift = 1
    else:
        codec = enc
    text = newline.join(lines) + (newline if lines and rng.random() < 0.9 else '')
    raw = text.encode(codec)
    for d in em.defs:
        d['line'] += shift      # in place: the members of the classes are the same objects
    return raw, text, em.defs, '%s%s' % (enc, ' CRLF' if newline == '\r\n' else '')


def ast_bindings(raw, text):
    """the binding sites of the module according to Python's own parser: {(name, line, column|None, top-level?)}"""
    tree = ast.parse(raw)
    lines = text.split('\n')
    out = set()

    def col(node):
        line = lines[node.lineno - 1].encode('utf-8')
        return len(line[:node.col_offset].decode('utf-8'))

    def walk(node, nested):
        if isinstance(node, (ast.FunctionDef, ast.AsyncFunctionDef)):
            out.add((node.name, node.lineno, None, not nested))
            a = node.args
            for arg in a.posonlyargs + a.args + a.kwonlyargs + [x for x in (a.vararg, a.kwarg) if x]:
                out.add((arg.arg, arg.lineno, col(arg), False))
            for x in node.decorator_list + a.defaults + [d for d in a.kw_defaults if d]:
                walk(x, nested)
            for x in node.body:
                walk(x, True)
        elif isinstance(node, ast.ClassDef):
            out.add((node.name, node.lineno, None, not nested))
            for x in node.bases + node.decorator_list:
                walk(x, nested)
            for x in node.body:
                walk(x, True)
        elif isinstance(node, ast.Lambda):
            a = node.args
            for arg in a.posonlyargs + a.args + a.kwonlyargs + [x for x in (a.vararg, a.kwarg) if x]:
                out.add((arg.arg, arg.lineno, col(arg), False))
            walk(node.body, True)
        elif isinstance(node, (ast.ListComp, ast.SetComp, ast.DictComp, ast.GeneratorExp)):
            for x in ast.iter_child_nodes(node):
                walk(x, True)
        elif isinstance(node, ast.Name):
            if isinstance(node.ctx, ast.Store):
                out.add((node.id, node.lineno, col(node), not nested))
        elif isinstance(node, ast.Attribute):
            if isinstance(node.ctx, ast.Store):
                out.add((node.attr, node.end_lineno, None, not nested))
            walk(node.value, nested)
        elif isinstance(node, ast.ExceptHandler):
            if node.name:
                out.add((node.name, node.lineno, None, not nested))
            for x in ast.iter_child_nodes(node):
                walk(x, nested)
        elif isinstance(node, ast.alias):
            out.add(((node.asname or node.name).split('.')[0], node.lineno, None, not nested))
        else:
            for x in ast.iter_child_nodes(node):
                walk(x, nested)
    walk(tree, False)
    return out


def validate_source(rel, raw, text, defs, heads, classes):
    """the planted definitions are exactly the binding sites Python sees; the file runs; instances have the members"""
    got = ast_bindings(raw, text)
    planted = {(d['name'], d['line'], d['top']) for d in defs}
    seen = {(n, l, t) for n, l, c, t in got}
    if planted != seen:
        raise RuntimeError('harness: planted definitions differ from the ast of %s: only planted %r, only ast %r\n%s'
                           % (rel, sorted(planted - seen), sorted(seen - planted), text))
    cols = {(d['name'], d['line'], d['col']) for d in defs}
    for n, l, c, t in got:
        if c is not None and (n, l, c) not in cols:
            raise RuntimeError('harness: column of %r in line %d of %s is %d\n%s' % (n, l, rel, c, text))
    ns = {'__name__': 'generated', '__file__': __file__}
    try:
        exec(compile(raw, rel, 'exec'), ns)
    except Exception:
        raise RuntimeError('harness: generated file %s does not run: %s\n%s' % (rel, traceback.format_exc(limit=2), text))
    for h in heads:
        if h['weak']:
            continue        # the name of the class is bound again elsewhere in the file
        for m in members_of(classes, h['cls']):
            if not hasattr(ns[h['cls']](), m['name']):
                raise RuntimeError('harness: instance of %s has no %s in %s' % (h['cls'], m['name'], rel))


def members_of(classes, k):
    out = []
    while k:
        out += classes[k]['members']
        k = classes[k]['base']
    return out


# ---- .gitignore -----------------------------------------------------------------------------------------------------
def under(path, folder):
    return folder == '' or path == folder or path.startswith(folder + '/')


def ignore_model(dirs, files, gitignores, classes=('core',)):
    """paths (relative, '/'-separated) that git ignores, for entries without glob / negation:
    an entry without '/' (other than a trailing one) names a folder or file of that name anywhere below the folder of
    the .gitignore, an entry with a leading or inner '/' is relative to that folder; a trailing '/' restricts the entry
    to folders; trailing blanks do not count.
    gitignores: {folder: [(pattern text, class)]}; only entries whose class is in `classes` are applied."""
    ign_dirs = set()
    for d in sorted(dirs, key=lambda x: x.count('/')):
        if d == '':
            continue
        parent = os.path.dirname(d)
        if parent in ign_dirs:
            ign_dirs.add(d)
            continue
        if _matched(d, True, gitignores, ign_dirs, classes):
            ign_dirs.add(d)
    ign_files = set()
    for f in files:
        if os.path.dirname(f) in ign_dirs or _matched(f, False, gitignores, ign_dirs, classes):
            ign_files.add(f)
    return ign_dirs, ign_files


def _matched(path, is_dir, gitignores, ign_dirs, classes):
    for g, entries in gitignores.items():
        if g in ign_dirs or not under(path, g) or path == g:
            continue
        rel = path[len(g) + 1:] if g else path
        for text, cls in entries:
            if cls not in classes:
                continue
            p = text.rstrip(' ')
            if not p or p[0] in '#!' or '*' in p:
                continue
            if p.endswith('/'):
                if not is_dir:
                    continue
                p = p.rstrip('/')
            if '/' in p:
                if rel == p.lstrip('/'):
                    return True
            elif os.path.basename(path) == p:
                return True
    return False


def git_ignored(root, paths):
    """what git itself says (None without a git executable)"""
    git = shutil.which('git')
    if git is None:
        return None
    gitdir = tempfile.mkdtemp(prefix='git_', dir=os.environ['STANDIN_TMP'])
    try:
        env = dict(os.environ, GIT_CONFIG_GLOBAL='/dev/null', GIT_CONFIG_SYSTEM='/dev/null', GIT_CONFIG_NOSYSTEM='1',
                   HOME=gitdir, LC_ALL='C')
        for k in ('GIT_DIR', 'GIT_WORK_TREE', 'GIT_INDEX_FILE'):
            env.pop(k, None)
        repo = os.path.join(gitdir, 'r.git')
        subprocess.run([git, 'init', '-q', '--bare', repo], check=True, env=env, capture_output=True)
        with open(os.path.join(repo, 'info', 'exclude'), 'w'):
            pass
        p = subprocess.run([git, '--git-dir=' + repo, '--work-tree=' + root, '-C', root, '-c', 'core.excludesFile=',
                            'check-ignore', '--no-index', '-z', '--stdin'],
                           input='\0'.join(paths).encode('utf-8') + b'\0', env=env, capture_output=True)
        if p.returncode not in (0, 1):
            raise RuntimeError('harness: git check-ignore failed: %r' % p.stderr[-300:])
        return {x.decode('utf-8') for x in p.stdout.split(b'\0') if x}
    finally:
        shutil.rmtree(gitdir, ignore_errors=True)


# ---- the tree -------------------------------------------------------------------------------------------------------
def gen_tree(rng, profile):
    odd = profile == 'odd ignore'      # .gitignore entries with trailing blanks / naming files: separate trees
    if odd:
        profile = 'ignore'
    """-> dict(dirs, files{rel: dict}, gitignores{dir: [(text, class)]}, gitignore_bytes{dir: bytes}, pool)"""
    pool = Pool(rng)
    names_for_dirs = pool.idents[:6] + pool.heads
    dirs = ['']
    n_dirs = {'ignore': rng.randint(7, 12), 'content': rng.randint(3, 7), 'wide': 5}[profile]
    tries = 0
    while len(dirs) <= n_dirs and tries < 200:
        tries += 1
        parent = rng.choice(dirs)
        if parent.count('/') >= 3:
            continue
        r = rng.random()
        if profile == 'wide':
            group = PKG_DIRS + names_for_dirs + ODD_DIRS
        elif profile == 'ignore':
            group = (PKG_DIRS if r < 0.3 else IGNORED if r < 0.45 else LOOKALIKE_DIRS if r < 0.55 else TARGET_DIRS
                     if r < 0.75 else TARGET_LOOKALIKES if r < 0.82 else ODD_DIRS if r < 0.9 else names_for_dirs)
        else:
            group = (PKG_DIRS if r < 0.3 else names_for_dirs if r < 0.62 else ODD_DIRS if r < 0.71 else IGNORED
                     if r < 0.78 else TARGET_DIRS if r < 0.87 else [rng.choice(names_for_dirs) + '-stubs'])
        d = (parent + '/' if parent else '') + rng.choice(group)
        if d not in dirs:
            dirs.append(d)
    files = {}

    def add_py(rel, must=None, want_head=None, n_items=None, simple=False):
        gen = SourceGen(rng, pool, must=must)
        if n_items is None:
            n_items = rng.randint(0, 2) if profile == 'ignore' else rng.randint(1, 6)
        em = gen.module(n_items, want_head=want_head)
        raw, text, defs, enc = encode_source(rng, em, simple=simple)
        files[rel] = {'raw': raw, 'text': text, 'defs': defs, 'enc': enc, 'py': True, 'heads': em.heads,
                      'classes': em.classes}

    for d in dirs:
        pre = d + '/' if d else ''
        if d.endswith('-stubs'):
            add_py(pre + rng.choice(['__init__.pyi', '__init__.pyi', '__init__.py']), n_items=rng.randint(1, 2))
        elif d and rng.random() < 0.45:
            add_py(pre + rng.choice(['__init__.py', '__init__.py', '__init__.py', '__init__.pyi']),
                   n_items=rng.randint(0, 2))
        for _ in range(rng.randint(1, 3) if profile != 'wide' else 0):
            r = rng.random()
            base = rng.choice(pool.idents + pool.heads) if r < 0.45 else 'm%d' % rng.randint(1, 4)
            suffix = '.py' if rng.random() < 0.85 else '.pyi'
            rel = pre + base + suffix
            if rel in files:
                continue
            own = base in pool.idents and rng.random() < 0.7
            # a module that defines its own name (and more names with that prefix)
            add_py(rel, must=[base, rng.choice([i for i in pool.idents if i.startswith(base)])] if own else None,
                   want_head=rng.choice(pool.heads) if profile == 'content' and rng.random() < 0.5 else None)
            if rng.random() < 0.12:
                other = pre + base + ('.pyi' if suffix == '.py' else '.py')
                if other not in files:
                    add_py(other, must=[rng.choice(pool.idents)])
        if rng.random() < 0.3:
            # things that are no Python files must never be looked at
            gen = SourceGen(rng, pool, must=[rng.choice(pool.idents)])
            em = gen.module(1)
            rel = pre + rng.choice(['notes.txt', 'old.py.bak', 'mod.pyx', 'Makefile', 'script.pyw', 'data.py.orig',
                                    'pyfile', 'x.py~', 'stub.pyi.txt'])
            files[rel] = {'raw': '\n'.join(em.lines).encode('utf-8'), 'py': False}
    if profile == 'wide':
        # many files that all contain one identifier: the documented limit is 30 parsed files
        common = pool.idents[0]
        n = rng.randint(26, 29)
        for i in range(n):
            d = dirs[i % len(dirs)]
            add_py((d + '/' if d else '') + 'w%02d.py' % i, must=[common], n_items=1, simple=True)
    for d in dirs:
        if not any(os.path.dirname(f) == d for f in files):
            files[(d + '/' if d else '') + 'README'] = {'raw': b'', 'py': False}

    # .gitignore files at several levels
    gitignores, gitignore_bytes = {}, {}
    hosts = [d for d in dirs if any(under(x, d) and x != d for x in dirs)]
    chosen = [h for h in hosts if (h == '' and rng.random() < 0.8) or (h != '' and rng.random() < 0.4)][:4]
    if profile == 'wide':
        chosen = []
    for g in chosen:
        below = [x for x in dirs if under(x, g) and x != g]
        entries = []
        for _ in range(rng.randint(1, 3)):
            t = rng.choice(below)
            rel = t[len(g) + 1:] if g else t
            r = rng.random()
            if r < 0.3:
                text = os.path.basename(t)
            elif r < 0.45:
                text = os.path.basename(t) + '/'
            elif r < 0.6:
                text = '/' + rel
            elif r < 0.7:
                text = '/' + rel + '/'
            elif r < 0.85:
                text = rel                       # anchored if it has an inner slash, otherwise relative
            else:
                text = rel + '/'
            cls = 'core'
            if odd and rng.random() < 0.3:
                text, cls = text + rng.choice([' ', '  ']), 'space'
            entries.append((text, cls))
        if odd and rng.random() < 0.5:
            # an entry that names a file
            pys = [f for f in files if files[f]['py'] and under(f, g) and not f.endswith(('__init__.py', '__init__.pyi'))]
            if pys:
                f = rng.choice(pys)
                rel = f[len(g) + 1:] if g else f
                entries.append((rng.choice([os.path.basename(f), '/' + rel]), 'file'))
        for _ in range(rng.randint(0, 3)):
            entries.insert(rng.randint(0, len(entries)),
                           (rng.choice(['# build', '', '!keep.txt', '*.pyc', '*.egg-info/', '#venv', '!*.keep', '*.log']),
                            'noise'))
        nl = '\n' if rng.random() < 0.8 else '\r\n'
        body = nl.join(t for t, _ in entries) + (nl if rng.random() < 0.85 else '')
        gitignores[g] = entries
        gitignore_bytes[g] = body.encode('utf-8')
    if sum(1 for f in files.values() if f['py']) > 60:
        raise RuntimeError('harness: tree too large')
    return {'dirs': dirs, 'files': files, 'gitignores': gitignores, 'gitignore_bytes': gitignore_bytes, 'pool': pool}


def write_tree(rng, root, tree):
    order = list(tree['dirs'])
    rng.shuffle(order)
    for d in sorted(order, key=lambda x: x.count('/')):
        os.makedirs(os.path.join(root, d), exist_ok=True)
    names = sorted(tree['files'])
    rng.shuffle(names)
    for rel in names:
        with open(os.path.join(root, rel), 'wb') as f:
            f.write(tree['files'][rel]['raw'])
    for g, body in tree['gitignore_bytes'].items():
        with open(os.path.join(root, g, '.gitignore'), 'wb') as f:
            f.write(body)


def classify(tree):
    """for every path: why it is hidden, or None. -> (hidden{path: reason}, visible python files)"""
    dirs, files = tree['dirs'], tree['files']
    all_files = list(files) + [(g + '/' if g else '') + '.gitignore' for g in tree['gitignores']]
    core_d, core_f = ignore_model(dirs, all_files, tree['gitignores'], ('core',))
    full_d, full_f = ignore_model(dirs, all_files, tree['gitignores'], ('core', 'space', 'file'))
    hidden = {}
    for p in list(dirs) + all_files:
        if p == '':
            continue
        parts = p.split('/')
        folder_parts = parts if p in dirs else parts[:-1]
        if any(x in IGNORED for x in folder_parts):
            hidden[p] = 'name'
        elif p in core_d or p in core_f:
            hidden[p] = 'gitignore'
        elif p in full_d or p in full_f:
            s_d, s_f = ignore_model(dirs, all_files, tree['gitignores'], ('core', 'space'))
            hidden[p] = 'space' if (p in s_d or p in s_f) else 'file'
    return hidden, all_files, (full_d, full_f)


ODD = ' (tree with .gitignore entries that have trailing blanks or name files)'
LABEL_HIDDEN = {
    'name': '%s reports definitions from ignored places',
    'gitignore': '%s reports definitions from ignored places',
    'name odd': '%s reports definitions from ignored places' + ODD,
    'gitignore odd': '%s reports definitions from ignored places' + ODD,
    'space odd': '%s reports definitions from folders named by a .gitignore entry with trailing blanks',
    'file odd': '%s reports definitions from files named by a .gitignore entry',
    'space': '%s reports definitions from folders named by a .gitignore entry with trailing blanks',
    'file': '%s reports definitions from files named by a .gitignore entry',
}


class TreeCheck:
    def __init__(self, idx, seed, tier, profile):
        self.idx, self.seed, self.tier, self.profile = idx, seed, tier, profile
        self.rng = random.Random('%s/%s/%s' % (seed, idx, profile))
        self.violations, self.evaluations, self.nontrivial = [], 0, 0
        self.sample = None
        self._entities = None

    def add(self, label, kind, query, observed, rel=None):
        t = self.tree
        desc = {'tree': '%s #%d (seed %d)' % (self.profile, self.idx, self.seed), 'project': self.cfg_name,
                'query': query,
                'gitignores': {g or '.': b.decode('utf-8') for g, b in t['gitignore_bytes'].items()},
                'paths': sorted(p for p in self.all_files)}
        if rel is not None and rel in t['files'] and t['files'][rel].get('py'):
            desc['file'] = rel
            desc['encoding'] = t['files'][rel]['enc']
            desc['source'] = t['files'][rel]['text'][:700]
        self.violations.append({'label': label, 'kind': kind, 'input': json.dumps(desc, ensure_ascii=False),
                                'observed': observed[:700]})

    # ---- expectations ---------------------------------------------------------------------------------------------
    def module_entities(self):
        """modules and packages of the tree: (module name, key, hidden reason|None, top-level?, required?, parent folder)"""
        if self._entities is not None:
            return self._entities
        t = self.tree
        found = []      # (parent folder, module name, key, hidden, top, kind)
        for rel, f in t['files'].items():
            if not f['py']:
                continue
            stem, suffix = os.path.basename(rel).rsplit('.', 1)
            if stem != '__init__':
                found.append((os.path.dirname(rel), stem, (rel, None, None, stem, 'module'), self.hidden.get(rel),
                              '/' not in rel, suffix))
        for d in t['dirs']:
            if d == '':
                continue
            name = os.path.basename(d)
            kind = 'dir'
            if name.endswith('-stubs'):
                name, kind = name[:-len('-stubs')], 'stubs'     # PEP 561: the stub package of `name`
            if d + '/__init__.py' in t['files']:
                key = (d + '/__init__.py', None, None, name, 'module')
            elif d + '/__init__.pyi' in t['files']:
                key = (d + '/__init__.pyi', None, None, name, 'module')
            else:
                key = (None, None, None, name, 'namespace')
            found.append((os.path.dirname(d), name, key, self.hidden.get(d), '/' not in d, kind))
        out = []
        for parent, name, key, hid, top, kind in found:
            # stubs next to what they describe are reported as the thing described; alone they are reported themselves
            alone = sum(1 for p2, n2, _, _, _, _ in found if (p2, n2) == (parent, name)) == 1
            required = kind in ('py', 'dir') and (kind == 'py' or key[0] is None or key[0].endswith('.py') or alone) \
                or alone and not (kind == 'stubs' and key[0] is None)
            out.append((name, key, hid, top, required, parent))
        self._entities = out
        return out

    def expect(self, wanted_type, names, complete, all_scopes):
        """-> (required, allowed, prefix_modules): sets of keys (rel, line, col, name, type)"""
        t = self.tree
        last = names[-1]

        def exact(n):
            return n.startswith(last) if complete else n == last

        def loose(n):
            return n.lower().startswith(last.lower()) if complete else n.lower() == last.lower()

        def typed(typ):
            return not wanted_type or wanted_type == typ
        req, allowed, prefix_modules = set(), set(), set()
        if len(names) == 1:
            for rel, f in t['files'].items():
                if not f['py'] or rel in self.hidden:
                    continue
                for d in f['defs']:
                    if (all_scopes or d['top']) and typed(d['type']) and loose(d['name']):
                        key = (rel, d['line'], d['col'], d['name'], d['type'])
                        allowed.add(key)
                        if exact(d['name']) and d['req']:
                            req.add(key)
            for name, key, hid, top, required, _ in self.module_entities():
                if hid or not loose(name):
                    continue
                if key[0] is not None and key[0].endswith('__init__.pyi') and typed('namespace'):
                    allowed.add((None, None, None, name, 'namespace'))   # at run time such a folder is a namespace
                if not typed(key[4]):
                    continue
                allowed.add(key)
                if name == last and required:
                    req.add(key)
                elif exact(name) and required:
                    prefix_modules.add(key)
            return req, allowed, prefix_modules
        head = names[0]
        # 1. the head is a module or a package: its top-level definitions
        for name, key, hid, top, required, parent in self.module_entities():
            if name != head or hid and not (top and self.cfg_name != 'no sys.path'):
                continue
            # sub-modules and sub-packages are attributes of a package once they are imported: allowed
            me = (parent + '/' if parent else '') + name
            for n2, k2, h2, _, _, p2 in self.module_entities():
                # (they are found by the import machinery, which does not know about ignore rules)
                if p2 in (me, me + '-stubs') and loose(n2):
                    if typed(k2[4]):
                        allowed.add(k2)
                    if typed('namespace'):
                        allowed.add((None, None, None, n2, 'namespace'))
            if key[0] is None or hid:
                continue
            rel = key[0]
            f = t['files'][rel]
            sibling = rel[:-1] if rel.endswith('.pyi') else rel + 'i'
            counts = {}
            for d in f['defs']:
                if d['top']:
                    counts[d['name']] = counts.get(d['name'], 0) + 1
            for d in f['defs']:
                if d['top'] and typed(d['type']) and loose(d['name']):
                    k = (rel, d['line'], d['col'], d['name'], d['type'])
                    allowed.add(k)
                    # several bindings of one name: which of them a module "has" depends on the flow
                    if exact(d['name']) and d['req'] and not d['flow'] and counts[d['name']] == 1 \
                            and d['type'] != 'module' and sibling not in t['files'] and required \
                            and not (rel.endswith('.pyi') and d['name'].startswith('_')):    # private in a stub
                        req.add(k)
        # 2. the head is bound to instances of classes of the same file: the members of each such class
        for rel, f in t['files'].items():
            if not f['py'] or rel in self.hidden:
                continue
            for h in f['heads']:
                if h['name'] != head or not (all_scopes or h['top']):
                    continue
                extra = set()
                k = h['cls']
                while k:
                    extra |= set(f['classes'][k].get('extra', []))
                    k = f['classes'][k]['base']
                for m in members_of(f['classes'], h['cls']):
                    if typed(m['type']) and loose(m['name']):
                        k = (rel, m['line'], m['col'], m['name'], m['type'])
                        allowed.add(k)
                        if exact(m['name']) and not h['weak']:
                            req.add(k)
                for d in f['defs']:
                    # attributes set from outside (K.x = 1); and if the name of the class is bound several times,
                    # the members of whatever else it may mean
                    if (d['name'] in extra or h['weak'] and not d['top']) and loose(d['name']) and typed(d['type']):
                        allowed.add((rel, d['line'], d['col'], d['name'], d['type']))
        return req, allowed, prefix_modules

    # ---- one query ------------------------------------------------------------------------------------------------
    def query(self, string, complete, all_scopes, qkind):
        t = self.tree
        api = 'complete_search' if complete else 'search'
        q = '%s(%r, all_scopes=%r)' % (api, string, all_scopes)
        self.evaluations += 1
        try:
            results = list(getattr(self.project, api)(string, all_scopes=all_scopes))
            got = []
            for r in results:
                got.append((r.module_path, r.line, r.column, r.name, r.type))
        except Exception:
            self.add('project search raised' + self.off_path, qkind, q, traceback.format_exc(limit=6)[-700:])
            return
        wanted_type, _, dotted = string.rpartition(' ')
        wanted_type = {'def': 'function'}.get(wanted_type, wanted_type)
        names = dotted.split('.')
        req, allowed, prefix_modules = self.expect(wanted_type, names, complete, all_scopes)
        seen, seen_list = set(), []
        for path, line, col, name, typ in got:
            if line is None and typ not in ('module', 'namespace'):
                continue                                      # __name__, __doc__ ... of a module: no definitions
            if path is None:
                if typ != 'namespace':
                    continue                                  # a compiled module of the environment
                key = (None, None, None, name, 'namespace')
            else:
                path = os.path.realpath(str(path))
                if not under(path, self.root):
                    continue                                  # the environment's sys.path
                rel = os.path.relpath(path, self.root).replace(os.sep, '/')
                # a module as such is reported at (1, 0); an imported name of type module sits where the import is
                whole = typ == 'module' and (line, col) in ((1, 0), (None, None))
                key = (rel, None, None, name, typ) if whole else (rel, line, col, name, typ)
            seen_list.append(key)
            if key in seen:
                continue
            seen.add(key)
            if key in allowed:
                continue
            rel = key[0]
            if rel is None:
                # a folder without __init__: the answer does not say which one, so go by the name
                spelled = len(names) == 1 and not wanted_type and (
                    name.lower().startswith(names[0].lower()) if complete else name.lower() == names[0].lower())
                ents = [e for e in self.module_entities() if e[1] == key or e[0] == name and e[1][0] is not None
                        and e[1][0].endswith('__init__.pyi')]    # (a folder with only __init__.pyi: a namespace too)
                if not spelled or not ents:
                    self.add('%s reports something that is no definition spelled that way' % api, qkind, q,
                             'reported namespace %r' % name)
                elif not (self.cfg_name != 'no sys.path' and any(e[3] for e in ents)):
                    # all folders of that name are hidden (otherwise the key would be allowed), none is a top-level
                    # folder that the sys.path part of the search may report
                    reasons = {e[2] for e in ents}
                    reason = 'space' if reasons == {'space'} else 'file' if reasons <= {'space', 'file'} else 'name'
                    self.add(LABEL_HIDDEN[reason + self.odd] % api, qkind, q,
                             'reported namespace %r, folders of that name: %r' % (
                                 name, [d for d in t['dirs'] if os.path.basename(d) == name]))
                continue
            if rel not in t['files'] or not t['files'][rel]['py']:
                self.add('%s reports definitions from files that are no Python files' % api, qkind, q,
                         'reported %r' % (key,))
                continue
            reason = self.hidden.get(rel)
            if reason:
                first = rel.split('/')[0]
                first_name = first.rsplit('.', 1)[0] if first in t['files'] else first
                if self.cfg_name != 'no sys.path' and self.hidden.get(first) and (
                        first_name.lower() in (names[0].lower(), names[0].lower() + '-stubs') or (
                            complete and len(names) == 1 and first_name.lower().startswith(names[0].lower()))):
                    continue     # the ignored thing is itself a module of that name on sys.path (the project folder)
                # (in the trees with odd entries one known weakness can surface in other ignored places, too:
                # x-stubs/ named by an entry with a trailing blank leads to the ignored package x)
                self.add(LABEL_HIDDEN[reason + self.odd] % api, qkind, q, 'reported %r' % (key,), rel)
                continue
            self.add('%s reports something that is no definition spelled that way' % api, qkind, q,
                     'reported %r; definitions of the file: %r' % (
                         key, [(d['name'], d['line'], d['col'], d['type'], 'top' if d['top'] else 'nested')
                               for d in t['files'][rel]['defs'] if d['name'].lower().startswith(names[-1].lower()[:3])]),
                     rel)
        missing = sorted(req - seen, key=repr)
        if missing:
            self.add('%s misses definitions outside ignored places' % api, qkind, q,
                     'missing %r (reported: %r)' % (missing[:6], sorted(seen, key=repr)[:8]), missing[0][0])
        if req:
            self.nontrivial += 1
        lost = sorted(prefix_modules - seen, key=repr)
        if lost:
            self.add('complete_search misses modules and packages whose name only starts with the search string',
                     qkind, q, 'missing %r' % lost[:6])
        dup = sorted({k for k in seen_list if seen_list.count(k) > 1 and k[0] is not None}, key=repr)
        if dup:
            self.add('%s reports one definition several times' % api, qkind, q, 'several times: %r' % dup[:6], dup[0][0])

    # ---- Script.search on the buffers -----------------------------------------------------------------------------
    def script_checks(self, jedi):
        t, rng = self.tree, self.rng
        pys = sorted(r for r, f in t['files'].items() if f['py'] and f['defs'])
        for rel in rng.sample(pys, min(len(pys), 3 if self.tier == 'quick' else 5)):
            f = t['files'][rel]
            script = jedi.Script(f['text'], path=os.path.join(self.root, rel), project=self.project)
            names = sorted({d['name'] for d in f['defs']})
            picked = rng.sample(names, min(len(names), 5))
            queries = [(n, False) for n in picked]
            queries += [(n[:rng.randint(1, len(n))], True) for n in picked[:3]]
            queries += [(rng.choice(['def ', 'class ']) + n, False) for n in picked[:2]]
            queries += [('missing_name', False)]
            plain = {}
            for all_scopes in (False, True):
                plain[all_scopes] = [(n.name, n.type, n.line, n.column) for n in script.get_names(all_scopes=all_scopes)]
            for string, complete in queries:
                for all_scopes in (False, True):
                    self.evaluations += 1
                    q = 'Script(%s).%s(%r, all_scopes=%r)' % (rel, 'complete_search' if complete else 'search', string,
                                                              all_scopes)
                    try:
                        fn = script.complete_search if complete else script.search
                        got = [(n.name, n.type, n.line, n.column) for n in fn(string, all_scopes=all_scopes)]
                    except Exception:
                        self.add('Script.search raised' + self.off_path, 'buffer', q, traceback.format_exc(limit=6)[-700:], rel)
                        continue
                    typ, _, last = string.rpartition(' ')
                    typ = {'def': 'function'}.get(typ, typ)

                    def exact(n):
                        return n.startswith(last) if complete else n == last

                    def loose(n):
                        return n.lower().startswith(last.lower()) if complete else n.lower() == last.lower()
                    must = [g for g in plain[all_scopes] if exact(g[0]) and (not typ or g[1] == typ)]
                    may = [g for g in plain[all_scopes] if loose(g[0]) and (not typ or g[1] == typ)]
                    if [g for g in must if g not in got] or [g for g in got if g not in may]:
                        self.add('Script.search disagrees with filtering get_names', 'buffer', q,
                                 'got %r, filtered get_names %r' % (sorted(got), sorted(must)), rel)
                    if must:
                        self.nontrivial += 1
                    # and against the planted definitions
                    planted = {(d['name'], d['type'], d['line'], d['col']) for d in f['defs']
                               if (all_scopes or d['top']) and exact(d['name']) and d['req']
                               and (not typ or d['type'] == typ)}
                    if planted - set(got):
                        self.add('Script.search misses definitions of the buffer', 'buffer', q,
                                 'missing %r, got %r' % (sorted(planted - set(got)), sorted(got)), rel)
            # dotted searches on the buffer
            for h in sorted({h['name'] for h in f['heads']}):
                members = sorted({m['name'] for hh in f['heads'] if hh['name'] == h
                                  for m in members_of(f['classes'], hh['cls'])})
                for m in rng.sample(members, min(len(members), 3)):
                    for string, complete in ((h + '.' + m, False), (h + '.' + m[:max(1, len(m) - 2)], True)):
                        for all_scopes in (False, True):
                            self.evaluations += 1
                            q = 'Script(%s).%s(%r, all_scopes=%r)' % (
                                rel, 'complete_search' if complete else 'search', string, all_scopes)
                            try:
                                fn = script.complete_search if complete else script.search
                                # (answers for a stub may point into the module next to it: not checked)
                                got = {(rel, n.line, n.column, n.name, n.type)
                                       for n in fn(string, all_scopes=all_scopes) if n.module_path is not None
                                       and os.path.realpath(str(n.module_path)) == os.path.join(self.root, rel)}
                            except Exception:
                                self.add('Script.search raised' + self.off_path, 'buffer dotted', q,
                                         traceback.format_exc(limit=6)[-700:], rel)
                                continue
                            req, allowed = self.expect_in_file(rel, h, string.split('.')[1], complete, all_scopes)
                            if req:
                                self.nontrivial += 1
                            if req - got:
                                self.add('Script.search misses definitions of the buffer', 'buffer dotted', q,
                                         'missing %r, got %r' % (sorted(req - got), sorted(got)), rel)
                            if got - allowed:
                                self.add('Script.search reports something that is no definition spelled that way',
                                         'buffer dotted', q, 'unexpected %r' % sorted(got - allowed), rel)

    def expect_in_file(self, rel, head, last, complete, all_scopes):
        f = self.tree['files'][rel]
        req, allowed = set(), set()
        for h in f['heads']:
            if h['name'] != head or not (all_scopes or h['top']):
                continue
            extra = set()
            k = h['cls']
            while k:
                extra |= set(f['classes'][k].get('extra', []))
                k = f['classes'][k]['base']
            for m in members_of(f['classes'], h['cls']):
                ok = m['name'].lower().startswith(last.lower()) if complete else m['name'].lower() == last.lower()
                if ok:
                    key = (rel, m['line'], m['col'], m['name'], m['type'])
                    allowed.add(key)
                    if (m['name'].startswith(last) if complete else m['name'] == last) and not h['weak']:
                        req.add(key)
            for d in f['defs']:
                if d['name'] in extra or h['weak'] and not d['top']:
                    allowed.add((rel, d['line'], d['col'], d['name'], d['type']))
        return req, allowed

    # ---- the whole tree ---------------------------------------------------------------------------------------------
    def run(self):
        import jedi
        rng = self.rng
        tree = self.tree = gen_tree(rng, self.profile)
        self.odd = ' odd' if self.profile == 'odd ignore' else ''
        for rel, f in tree['files'].items():
            if f['py']:
                validate_source(rel, f['raw'], f['text'], f['defs'], f['heads'], f['classes'])
        base = tempfile.mkdtemp(prefix='t%d_' % self.idx, dir=os.environ['STANDIN_TMP'])
        try:
            # the project folder may itself sit below a folder with an ignored name: that is not part of the project
            wrapper = rng.choice(['', '', '', 'venv', '.tox', 'build'])
            self.root = root = os.path.realpath(os.path.join(base, wrapper, 'proj'))
            os.makedirs(root)
            self.hidden, self.all_files, _ = classify(tree)
            # the documented limit: 30 parsed files per search
            visible = sorted(r for r, f in tree['files'].items() if f['py'] and r not in self.hidden)
            extra = [r for r in visible if not os.path.basename(r).startswith('__init__.')]
            for r in rng.sample(extra, max(0, min(len(extra), len(visible) - 29))):
                del tree['files'][r]
                if not any(os.path.dirname(x) == os.path.dirname(r) for x in tree['files']):
                    tree['files'][os.path.join(os.path.dirname(r), 'README')] = {'raw': b'', 'py': False}
            self.hidden, self.all_files, _ = classify(tree)
            write_tree(rng, root, tree)
            by_git = git_ignored(root, self.all_files)
            if by_git is not None:
                mine = classify_git_only(tree, self.all_files)
                if mine != by_git:
                    raise RuntimeError('harness: .gitignore model and git disagree: only model %r, only git %r, %r'
                                       % (sorted(mine - by_git), sorted(by_git - mine), tree['gitignore_bytes']))
            self.cfg_name = rng.choice(['default'] * 4 + ['sys.path=[project]'] * 3 + ['no sys.path'])
            kwargs = {'default': {}, 'sys.path=[project]': {'sys_path': [root], 'smart_sys_path': False},
                      'no sys.path': {'sys_path': [], 'smart_sys_path': False}}[self.cfg_name]
            self.project = jedi.Project(root, **kwargs)
            # a known weakness gets its own label so that it cannot hide other exceptions
            self.off_path = ', project folder not on sys.path' if self.cfg_name == 'no sys.path' else ''
            self.queries()
            self.script_checks(jedi)
            visible = sorted(r for r, f in tree['files'].items() if f['py'] and r not in self.hidden)
            self.sample = {'tree': '%s #%d' % (self.profile, self.idx), 'project': self.cfg_name,
                           'gitignores': {g or '.': b.decode('utf-8') for g, b in tree['gitignore_bytes'].items()},
                           'visible python files': visible[:12],
                           'hidden': sorted('%s (%s)' % (p, r) for p, r in self.hidden.items() if p in tree['files'])[:8],
                           'encodings': sorted({tree['files'][r]['enc'] for r in visible}),
                           'identifiers': tree['pool'].idents[:8]}
        finally:
            shutil.rmtree(base, ignore_errors=True)
        return {'evaluations': self.evaluations, 'nontrivial': self.nontrivial, 'violations': self.violations,
                'samples': [self.sample]}

    def queries(self):
        t, rng, pool = self.tree, self.rng, self.tree['pool']
        quick = self.tier == 'quick'
        present = sorted({d['name'] for f in t['files'].values() if f['py'] for d in f['defs']}
                         | {e[0] for e in self.module_entities()})
        present = [p for p in present if p in pool.idents or p in pool.heads]
        both = (False, True)
        # 1. every identifier
        for name in rng.sample(present, min(len(present), 10 if quick else 30)) + ['absent_' + pool.stems[0]]:
            for all_scopes in both:
                self.query(name, False, all_scopes, 'name')
        # 2. type filter
        for name in rng.sample(present, min(len(present), 4 if quick else 10)):
            for typ in ('def', 'class'):
                self.query('%s %s' % (typ, name), False, rng.choice(both), 'typed name')
        # 3. prefixes
        prefixes = set()
        for s in pool.stems:
            prefixes |= {s[:2], s, s + '_', s[:max(2, len(s) - 1)]}
            if _cap(s):
                prefixes.add(_cap(s)[:3])
        prefixes |= {'x_', pool.heads[0][:-2]}
        prefixes = sorted(prefixes)
        for p in rng.sample(prefixes, min(len(prefixes), 7 if quick else 20)):
            for all_scopes in both:
                self.query(p, True, all_scopes, 'prefix')
        self.query(rng.choice(['def ', 'class ']) + rng.choice(prefixes), True, rng.choice(both), 'typed prefix')
        # 4. dotted searches: the head is a module / package or is bound to instances
        for h in pool.heads:
            members = set()
            for name, key, hid, top, required, _ in self.module_entities():
                if name == h and key[0] is not None:
                    members |= {d['name'] for d in t['files'][key[0]]['defs'] if d['top']}
            for f in t['files'].values():
                if f['py']:
                    for hh in f['heads']:
                        if hh['name'] == h:
                            members |= {m['name'] for m in members_of(f['classes'], hh['cls'])}
            members = sorted(m for m in members if m != '__init__')
            for m in rng.sample(members, min(len(members), 4 if quick else 12)):
                for all_scopes in both:
                    self.query('%s.%s' % (h, m), False, all_scopes, 'dotted')
                self.query('%s %s.%s' % (rng.choice(['def', 'class']), h, m), False, rng.choice(both), 'typed dotted')
                self.query('%s.%s' % (h, m[:rng.randint(1, len(m))]), True, rng.choice(both), 'dotted prefix')


def classify_git_only(tree, all_files):
    """the files that the .gitignore entries alone hide (folders with ignored names are jedi's business, not git's)"""
    d, f = ignore_model(tree['dirs'], all_files, tree['gitignores'], ('core', 'space', 'file'))
    return f


def _tree_task(arg):
    idx, seed, tier, profile = arg
    import jedi
    jedi.settings.cache_directory = os.path.join(os.environ['STANDIN_TMP'], 'cache_%d' % os.getpid())
    return TreeCheck(idx, seed, tier, profile).run()


def _task(arg):
    return _legacy_task(arg[1]) if arg[0] == 'legacy' else _tree_task(arg[1])


def _init_worker(repo):
    import sys
    sys.path.insert(0, repo)   # the tree under test, as in standins.runner


def run(repo, seed, tier):
    n_layouts = len(layouts('thorough'))
    tasks = [('legacy', (lo, min(lo + 10, n_layouts))) for lo in range(0, n_layouts, 10)]
    n = {'quick': (18, 26, 2, 3), 'thorough': (150, 200, 8, 20)}[tier]
    idx = 0
    for profile, count in zip(('ignore', 'content', 'wide', 'odd ignore'), n):
        for _ in range(count):
            tasks.append(('tree', (idx, seed, tier, profile)))
            idx += 1
    # spawned (not forked) workers, each with its own parser cache directory
    with mp.get_context('spawn').Pool(min(16, os.cpu_count() or 4), initializer=_init_worker,
                                      initargs=(repo,)) as pool:
        results = pool.map(_task, tasks, chunksize=1)
        pool.close()
        pool.join()     # let the workers (and the jedi subprocess of each) end by themselves
    violations, counts, per_kind, kept = [], {}, {}, []
    for r in results:
        violations += r['violations']
    rounds = [[], [], []]
    for v in violations:
        counts[v['label']] = counts.get(v['label'], 0) + 1
        k = (v['label'], v.get('kind'))
        per_kind[k] = per_kind.get(k, 0) + 1
        if per_kind[k] <= 3:
            rounds[per_kind[k] - 1].append({'label': v['label'], 'input': v['input'], 'observed': v['observed']})
    kept = (rounds[0] + rounds[1] + rounds[2])[:60]     # every (label, kind of query) once before any second example
    n_legacy = len(tasks) - sum(n)
    samples = [s for lo in (0, n_legacy, n_legacy + n[0]) for r in results[lo:lo + 1] for s in r['samples'][:1] if s]
    return {'name': 'C19.project-search', 'contract': 'C19.Project.search',
            'evaluations': sum(r['evaluations'] for r in results),
            'distinct_nontrivial': sum(r['nontrivial'] for r in results),
            'rule': 'project trees over directories a, ab, a/build, ab/build, a/sub/build, b + each ignored folder name at '
                    'two levels, x .gitignore variants in a/ (none, relative, anchored, with comments/negation/glob) x in '
                    'the root (none, relative, anchored); one module with one function per directory; expected = '
                    'functions outside ignored places (all %d layouts). PLUS %d+%d+%d+%d seeded random trees (profiles: '
                    'ignore rules / file contents / 26-29 files sharing one identifier / ignore rules with odd entries; <= 12 folders of depth <= 4 with '
                    'package, namespace, stub, odd, ignored and look-alike names; .gitignore files in up to 4 folders '
                    'with relative, anchored, trailing-slash and multi-component entries, comments, globs, negations, '
                    'CRLF; in the 4th profile also entries with trailing blanks or naming files, reported under labels '
                    'of their own; Python '
                    'files in utf-8 / BOM / latin-1 / cp1252 / iso-8859-15 with PEP 263 lines, LF or CRLF, non-Python '
                    'decoy files; identifiers from a pool of 2-4 stems (ASCII and non-ASCII) with shared prefixes and '
                    'case variants, used as function, class, statement, parameter, member, local, module and package '
                    'names; module files defining their own name; names bound several times), project with the '
                    'default sys.path / only the project / none. Queries per tree: <= %s identifiers x all_scopes, '
                    '"def x"/"class x", prefixes, "head.member" (head = module, package or a name bound to instances '
                    'of classes of the file, possibly several times or locally) with type filter and as prefix; '
                    'Script.search / complete_search on up to %d buffers per tree against the filtered get_names and '
                    'the planted definitions. Oracle: the planted definitions (checked against ast.parse of the bytes '
                    'and by executing the file), a model of .gitignore checked against `git check-ignore`; answers '
                    'must contain every required definition with file, line, column, name and type, and nothing but '
                    'definitions spelled that way (case-insensitively) outside ignored places.'
                    % (n_layouts, n[0], n[1], n[2], n[3], '11' if tier == 'quick' else '31', 3 if tier == 'quick' else 5),
            'samples': samples, 'violations': kept, 'violation_counts': counts}
