"""C20 bounded stand-in: Project constructor arguments x script locations on a real directory tree.

Oracles (from the property statement): (1) save() + load() gives the same path and settings; (2) the effective search
path of a Script has no duplicates, starts with the project directory when smart_sys_path is on, keeps the explicit (or
environment) entries in order, then added_sys_path, then the buffer's ancestor directories inside the project
(nearest last), nothing else; (3) that path is what import resolution uses: a module reachable only through one of
its entries resolves, one reachable only through the interpreter's own sys.path does not when an explicit path is given."""
import itertools
import os
import shutil
import sys
import tempfile
from pathlib import Path


def dedup(seq):
    out = []
    for x in seq:
        if x not in out:
            out.append(x)
    return out


def expected_path(project_dir, explicit, env_path, added, smart, script, buildout=()):
    base = list(explicit) if explicit is not None else [p for p in env_path if p != '']
    if explicit is None and '' in env_path:
        base = list(env_path)
        base.remove('')
    pre = [str(project_dir)] if smart else []
    suf = list(added)
    if smart and script is not None:
        suf += list(buildout)
        trav = []
        for parent in Path(script).parents:
            if parent == Path(project_dir) or Path(project_dir) not in parent.parents:
                break
            if (parent / '__init__.py').is_file():
                continue
            trav.append(str(parent))
        suf += list(reversed(trav))
    return dedup(pre + base + suf)


def run(repo, seed, tier):
    import jedi
    from jedi.api.project import Project
    violations = []
    evaluations = 0
    samples = []
    top = tempfile.mkdtemp(prefix='c20_', dir=os.environ['STANDIN_TMP'])
    try:
        top = os.path.realpath(top)
        proj = os.path.join(top, 'app')
        sib = os.path.join(top, 'app_tests')          # sibling whose NAME extends the project's name
        other = os.path.join(top, 'elsewhere')
        x1, x2, add1 = os.path.join(top, 'libé'), os.path.join(top, 'libé', 'sub'), os.path.join(top, 'extra')
        for d in (proj, sib, other, x1, x2, add1, os.path.join(proj, 'pkg', 'deep', 'deeper'),
                  os.path.join(proj, 'plain', 'inner'), os.path.join(sib, 'unit')):
            os.makedirs(d, exist_ok=True)
        open(os.path.join(proj, 'pkg', '__init__.py'), 'w').close()
        open(os.path.join(proj, 'pkg', 'deep', '__init__.py'), 'w').close()
        with open(os.path.join(add1, 'only_in_extra.py'), 'w') as f:
            f.write('marker = 1\n')
        with open(os.path.join(proj, 'plain', 'only_in_plain.py'), 'w') as f:
            f.write('marker = 2\n')
        with open(os.path.join(other, 'only_elsewhere.py'), 'w') as f:
            f.write('marker = 3\n')
        scripts = [None, os.path.join(proj, 'main.py'), os.path.join(proj, 'pkg', 'm.py'),
                   os.path.join(proj, 'pkg', 'deep', 'deeper', 'm.py'), os.path.join(proj, 'plain', 'inner', 'm.py'),
                   os.path.join(sib, 'unit', 'test_x.py'), os.path.join(other, 'm.py')]
        explicit_opts = [None, [], [x1, x2, x1], [x2, x1], [proj, x1], [Path(x1)]]
        added_opts = [(), (add1,), (add1, x1, add1), (Path(add1),)]
        # a module on the interpreter's own sys.path that neither jedi nor its helper process ever imports
        import importlib.util
        cold = cold_home = None
        for cand in ('pytest', 'docopt', 'colorama', 'attr', 'pluggy', 'iniconfig', 'packaging'):
            spec = importlib.util.find_spec(cand)
            if spec is not None and spec.origin and cand not in sys.modules:
                cold = cand
                cold_home = os.path.dirname(os.path.dirname(spec.origin)) if spec.origin.endswith('__init__.py') \
                    else os.path.dirname(spec.origin)
                break
        if cold is None:
            raise RuntimeError('no never-imported site-packages module found for the interpreter-path probe')
        env = jedi.get_default_environment()
        env_path = env.get_sys_path()
        combos = list(itertools.product(explicit_opts, added_opts, (True, False), scripts))
        if tier == 'quick':
            import random
            combos = random.Random(20 + seed).sample(combos, 110)
        for explicit, added, smart, script in combos:
            evaluations += 1
            desc = repr({'sys_path': explicit, 'added_sys_path': added, 'smart_sys_path': smart,
                         'script': script and os.path.relpath(script, top)})
            p = Project(proj, sys_path=explicit, added_sys_path=added, smart_sys_path=smart)
            s = jedi.Script('import only_in_extra\nimport only_in_plain\nimport only_elsewhere\nimport parso\n'
                            'import %s\n' % cold, path=script, project=p)
            got = s._inference_state.get_sys_path()
            want = expected_path(proj, None if explicit is None else [str(e) for e in explicit], env_path,
                                 [str(a) for a in added], smart, script)
            if len(samples) < 2:
                samples.append({'args': desc, 'effective_path_tail': got[-3:]})
            if len(set(got)) != len(got):
                violations.append({'label': 'effective search path contains duplicates', 'input': desc, 'observed': repr(got)})
            if got != want:
                violations.append({'label': 'effective search path is not project dir / given entries / added / '
                                            'ancestors inside the project, in that order', 'input': desc,
                                   'observed': 'got %r want %r' % ([os.path.relpath(g, top) if g.startswith(top) else g for g in got][-6:],
                                                                   [os.path.relpath(g, top) if g.startswith(top) else g for g in want][-6:])})
            # this path is what import resolution uses
            import parso
            parso_home = os.path.dirname(os.path.dirname(parso.__file__))     # on the interpreter's own sys.path
            for line, mod, home in ((1, 'only_in_extra', add1), (2, 'only_in_plain', os.path.join(proj, 'plain')),
                                    (3, 'only_elsewhere', other), (4, 'parso', parso_home),
                                    (5, cold, cold_home)):
                found = bool([n for n in s.infer(line, 8) if n.module_path is not None])
                should = home in want
                if found != should:
                    violations.append({'label': 'import resolution does not use the effective search path',
                                       'input': desc + ' import %s' % mod,
                                       'observed': 'resolved=%r although %r %s the path' % (found, os.path.relpath(home, top),
                                                                                             'is on' if should else 'is not on')})
        # discovery: a saved project is found again from any script below it - the nearest directory with a saved
        # configuration wins, whether or not the directories on the way (the project directory included) are packages
        from jedi.api.project import get_default_project
        disc = os.path.join(top, 'disc')
        for init_proj, init_sub, init_deep, depth in itertools.product((False, True), (False, True), (False, True), (0, 1, 2)):
            evaluations += 1
            shutil.rmtree(disc, ignore_errors=True)
            dproj = os.path.join(disc, 'outer', 'dproj')
            dirs = [dproj, os.path.join(dproj, 'sub'), os.path.join(dproj, 'sub', 'deep')]
            os.makedirs(dirs[2])
            for flag, dd in zip((init_proj, init_sub, init_deep), dirs):
                if flag:
                    open(os.path.join(dd, '__init__.py'), 'w').close()
            open(os.path.join(disc, 'outer', 'setup.py'), 'w').close()      # a project marker further up must not win
            script = os.path.join(dirs[depth], 'script.py')
            open(script, 'w').close()
            Project(dproj, added_sys_path=[add1], smart_sys_path=False, load_unsafe_extensions=True).save()
            desc = repr({'__init__.py in': [os.path.relpath(dd, disc) for flag, dd in zip((init_proj, init_sub, init_deep), dirs) if flag],
                         'script': os.path.relpath(script, disc)})
            try:
                q = get_default_project(script)
            except Exception as e:
                violations.append({'label': 'get_default_project raised', 'input': desc, 'observed': repr(e)})
                continue
            got = (str(q.path), q.added_sys_path, q.smart_sys_path, q.load_unsafe_extensions)
            want = (dproj, [add1], False, True)
            if got != want:
                violations.append({'label': 'project discovery does not load the saved project of the nearest directory',
                                   'input': desc, 'observed': 'got %r want %r' % (got, want)})
        shutil.rmtree(disc, ignore_errors=True)
        # round trip
        envp = sys.executable
        for explicit, added, smart, unsafe, ep in itertools.product(
                (None, [], [x1, x2], [Path(x1)]), ((), (add1,), (Path(add1), x1)), (True, False), (True, False),
                (None, envp, Path(envp))):
            evaluations += 1
            desc = repr({'sys_path': explicit, 'added_sys_path': added, 'smart_sys_path': smart,
                         'load_unsafe_extensions': unsafe, 'environment_path': ep})
            # the project directory is spelled in every way a caller may spell it: absolute / relative to the current
            # directory (plain and with a leading './'), as str and as Path - for the constructor and for load()
            rel = os.path.relpath(proj, top)
            spellings = (proj, Path(proj), rel, Path(rel), os.path.join('.', rel))
            for pth in (proj, Path(proj), rel):
                cwd = os.getcwd()
                os.chdir(top)
                try:
                    p = Project(pth, sys_path=explicit, added_sys_path=added, smart_sys_path=smart,
                                load_unsafe_extensions=unsafe, environment_path=ep)
                    try:
                        p.save()
                        loaded = [(sp, Project.load(sp)) for sp in spellings]
                    except Exception as e:
                        violations.append({'label': 'save()/load() raised', 'input': desc, 'observed': repr(e)})
                        continue
                    a = (os.path.abspath(str(p.path)), str(p.path), p.sys_path, p.added_sys_path, p.smart_sys_path,
                         p.load_unsafe_extensions, p._environment_path)
                    if a[0] != a[1] or a[0] != proj:
                        violations.append({'label': 'Project.path is not the absolute project directory',
                                           'input': desc + ' constructed with %r' % (pth,), 'observed': repr(a[:2])})
                    for sp, q in loaded:
                        b = (proj, str(q.path), q.sys_path, q.added_sys_path, q.smart_sys_path, q.load_unsafe_extensions,
                             q._environment_path)
                        if (proj,) + a[1:] != b:
                            violations.append({'label': 'save() then load() does not give the same path and settings',
                                               'input': desc + ' loaded through %r' % (sp,),
                                               'observed': 'saved %r loaded %r' % (a[1:], b[1:])})
                finally:
                    os.chdir(cwd)
                    shutil.rmtree(os.path.join(proj, '.jedi'), ignore_errors=True)
    finally:
        shutil.rmtree(top, ignore_errors=True)
    counts = {}
    kept = []
    per = {}
    for v in violations:
        counts[v['label']] = counts.get(v['label'], 0) + 1
        k = (v['label'], v['input'].split(' import ')[-1] if ' import ' in v['input'] else '')
        per[k] = per.get(k, 0) + 1
        if per[k] <= 3:
            kept.append(v)
    violations = kept
    return {'name': 'C20.project-settings', 'contract': 'C20.sys-path-shape',
            'evaluations': evaluations, 'distinct_nontrivial': evaluations,
            'rule': 'Project(app) x sys_path in {None, [], duplicates, prefix-related entries, project dir itself, Path '
                    'objects, a non-ASCII directory} x added_sys_path (4) x smart_sys_path x 7 script locations (none, '
                    'project root, inside packages with __init__.py at depth 1-3, plain directories, a sibling '
                    'directory whose name extends the project name, elsewhere); oracle = the documented order, and '
                    'three imports each reachable through exactly one candidate entry; plus 216 save/load round trips, each loaded through 5 spellings of the project directory (absolute / relative, str / Path)',
            'samples': samples, 'violations': violations[:60], 'violation_counts': counts}
