"""Bounded stand-ins: executable contracts evaluated on the REAL code over an enumerated small scope.

    python -m standins.runner <PROP> <tier> <seed>      (cwd=/verif, JEDI_REPO=<tree under test>)

Prints one JSON object: {name, contract, evaluations, distinct_nontrivial, rule, samples, violations:[...]}.
Never counted as proof; reported under coverage.bounded (DESIGN 4)."""
import importlib
import json
import os
import sys
import time


def main():
    prop, tier, seed = sys.argv[1], sys.argv[2], int(sys.argv[3])
    repo = os.environ.get('JEDI_REPO', '/repo')
    sys.path.insert(0, repo)
    # private parser cache so that runs do not influence each other or the user's cache
    import tempfile
    import shutil
    cache_dir = tempfile.mkdtemp(prefix='jedi_standin_', dir='/var/tmp')
    os.environ['STANDIN_TMP'] = cache_dir
    try:
        import jedi
        jedi.settings.cache_directory = os.path.join(cache_dir, 'main')
        mod = importlib.import_module('standins.' + prop.lower())
        t0 = time.time()
        res = mod.run(repo, seed, tier)
        res['wall_s'] = round(time.time() - t0, 1)
        print('STANDIN-RESULT ' + json.dumps(res, default=repr))
    finally:
        shutil.rmtree(cache_dir, ignore_errors=True)


if __name__ == '__main__':
    main()
