#!/usr/bin/env python3
"""Runs the pinned suite on /repo (guard off) and compares with BASELINE.json stable_pass.
usage: tools/baseline_check.py [junit.xml]   (runs pytest if no file given)"""
import json, os, subprocess, sys, tempfile, xml.etree.ElementTree as ET
base = json.load(open('/root/.vp/BASELINE.json'))
if len(sys.argv) > 1:
    fn = sys.argv[1]
else:
    fn = tempfile.mktemp(suffix='.xml', dir='/var/tmp')
    subprocess.run('cd /repo && /venv/bin/python -m pytest -ra -q -p no:cacheprovider --timeout=900 '
                   '--continue-on-collection-errors --junitxml=%s >/dev/null 2>&1' % fn, shell=True)
passed, failed = set(), set()
for tc in ET.parse(fn).getroot().iter('testcase'):
    tid = (tc.get('classname') or '') + '::' + (tc.get('name') or '')
    if tc.find('failure') is not None or tc.find('error') is not None:
        failed.add(tid)
    elif tc.find('skipped') is None:
        passed.add(tid)
passed -= failed
missing = sorted(set(base['stable_pass']) - passed)
print('stable_pass: %d, passed now: %d, missing: %d' % (len(base['stable_pass']), len(passed), len(missing)))
for m in missing[:20]:
    print('  MISSING', m)
if len(sys.argv) <= 1:
    os.unlink(fn)
sys.exit(1 if missing else 0)
