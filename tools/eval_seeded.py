#!/usr/bin/env python3
"""Confirm a sub-agent's seeded change and run our checks against it.

usage: tools/eval_seeded.py <src_dir containing patch.diff demo.py meta.json> <seed-id> <PROP> [--no-tests] [--keep]

Steps (all on scratch copies outside /repo and /verif, removed afterwards):
  1. the patch applies to a copy of /repo's current tree
  2. demo.py exits 0 on the clean copy and non-zero on the patched copy
  3. the pinned test suite still passes on the patched copy (same stable_pass set)
  4. ./check <PROP> (quick) is run with JEDI_REPO=<patched copy>; exit code and VIOLATION lines recorded
If 1-3 hold the change is stored as /verif/seeded/<seed-id>/ with our own results in meta.json."""
import json
import os
import shutil
import subprocess
import sys
import tempfile
import xml.etree.ElementTree as ET

HERE = os.path.dirname(os.path.dirname(os.path.abspath(__file__)))
src, sid, prop = sys.argv[1], sys.argv[2], sys.argv[3]
no_tests = '--no-tests' in sys.argv
extra_props = [a for a in sys.argv[4:] if a.startswith('C')]
base = json.load(open('/root/.vp/BASELINE.json'))


def copy_repo(dst):
    subprocess.check_call(['git', '-C', '/repo', 'worktree', 'add', '-q', '--detach', dst, 'HEAD'])


def run_demo(tree):
    p = subprocess.run(['/venv/bin/python', os.path.join(src, 'demo.py')], cwd=tree, capture_output=True, text=True,
                       timeout=900, env=dict(os.environ, PYTHONPATH=tree))
    return p.returncode, (p.stdout + p.stderr)[-1500:]


def run_tests(tree):
    fn = tempfile.mktemp(suffix='.xml', dir='/var/tmp')
    subprocess.run('cd %s && /venv/bin/python -m pytest -ra -q -p no:cacheprovider --timeout=900 '
                   '--continue-on-collection-errors --junitxml=%s >/dev/null 2>&1' % (tree, fn), shell=True)
    passed, failed = set(), set()
    for tc in ET.parse(fn).getroot().iter('testcase'):
        tid = (tc.get('classname') or '') + '::' + (tc.get('name') or '')
        if tc.find('failure') is not None or tc.find('error') is not None:
            failed.add(tid)
        elif tc.find('skipped') is None:
            passed.add(tid)
    os.unlink(fn)
    passed -= failed
    return sorted(set(base['stable_pass']) - passed)


clean = tempfile.mkdtemp(prefix='seed_clean_', dir='/var/tmp')
pat = tempfile.mkdtemp(prefix='seed_pat_', dir='/var/tmp')
os.rmdir(clean)
os.rmdir(pat)
res = {'seed_id': sid, 'property': prop}
try:
    copy_repo(clean)
    copy_repo(pat)
    ap = subprocess.run(['git', '-C', pat, 'apply', '--3way', os.path.abspath(os.path.join(src, 'patch.diff'))],
                        capture_output=True, text=True)
    if ap.returncode != 0:
        ap = subprocess.run(['patch', '-p1', '-d', pat, '-i', os.path.abspath(os.path.join(src, 'patch.diff'))],
                            capture_output=True, text=True)
    res['patch_applies'] = ap.returncode == 0
    if not res['patch_applies']:
        res['patch_error'] = (ap.stdout + ap.stderr)[-800:]
    else:
        res['demo_clean_exit'], _ = run_demo(clean)
        res['demo_patched_exit'], res['demo_patched_output'] = run_demo(pat)
        if not no_tests:
            res['tests_missing_from_stable_pass'] = run_tests(pat)
        checks = {}
        for pr in [prop] + extra_props:
            env = dict(os.environ, JEDI_REPO=pat, VERIF_EVIDENCE_DIR=os.path.join(pat, '_evidence'))
            p = subprocess.run([os.path.join(HERE, 'check'), pr], env=env, capture_output=True, text=True)
            checks[pr] = {'exit': p.returncode,
                          'lines': [l for l in p.stdout.splitlines() if l.startswith(('VIOLATION', 'UNDECIDED',
                                                                                       'CHECKER', pr + ' tier'))][:8]}
        res['checks'] = checks
        res['detected'] = any(c['exit'] == 1 for c in checks.values())
        res['confirmed'] = res['demo_clean_exit'] == 0 and res['demo_patched_exit'] != 0 and \
            (no_tests or not res['tests_missing_from_stable_pass'])
finally:
    for d in (clean, pat):
        subprocess.run(['git', '-C', '/repo', 'worktree', 'remove', '--force', d], capture_output=True)
        shutil.rmtree(d, ignore_errors=True)
print(json.dumps(res, indent=1))
if res.get('confirmed') and '--no-store' not in sys.argv:
    dst = os.path.join(HERE, 'seeded', sid)
    os.makedirs(dst, exist_ok=True)
    for f in ('patch.diff', 'demo.py'):
        shutil.copy(os.path.join(src, f), os.path.join(dst, f))
    meta = {}
    try:
        meta = json.load(open(os.path.join(src, 'meta.json')))
    except Exception:
        pass
    meta['confirmed_by_us'] = {k: res[k] for k in res if k not in ('demo_patched_output',)}
    meta['what_we_ran'] = 'tools/eval_seeded.py: patch applied to a scratch worktree of /repo HEAD; demo.py run on clean ' \
                          '(exit 0) and patched (exit != 0) trees; pinned suite compared with BASELINE stable_pass; ' \
                          './check %s with JEDI_REPO=<patched tree>' % prop
    json.dump(meta, open(os.path.join(dst, 'meta.json'), 'w'), indent=1)
