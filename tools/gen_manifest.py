#!/usr/bin/env python3
"""Regenerates /verif/MANIFEST.json from the table below (kept valid at all times)."""
import json, os, sys
HERE = os.path.dirname(os.path.dirname(os.path.abspath(__file__)))
props = {}
for l in open(os.path.join(HERE, 'properties.jsonl')):
    p = json.loads(l)
    props[p['id']] = p

# id -> (level text, level note, technique, design_ref)
CLAIMED = {}
sys.path.insert(0, HERE)
from tools.manifest_table import CLAIMED, NOT_APPLICABLE  # noqa

checks = []
for pid in sorted(CLAIMED):
    text, note, technique, ref = CLAIMED[pid]
    checks.append({
        'property_id': pid,
        'quick_cmd': './check %s --tier quick' % pid,
        'thorough_cmd': './check %s --tier thorough' % pid,
        'evidence_file': 'evidence/%s.json' % pid,
        'replay_cmd_template': './check %s --replay {path}' % pid,
        'engine': 'pyvc',
        'level_claimed': {'category': 'proof', 'text': text, 'design_ref': ref},
        'level_note': note,
        'technique': technique,
    })
na = [{'property_id': pid, 'reason': NOT_APPLICABLE[pid]} for pid in sorted(NOT_APPLICABLE)]
missing = set(props) - set(CLAIMED) - set(NOT_APPLICABLE)
assert not missing, missing
man = {
    'version': 1,
    'setup_cmd': './setup.sh',
    'hooks': {
        'guard': 'JEDI_VERIF',
        'enable': 'no source hooks: contracts are sidecars in /verif/contracts, obligations are generated from the '
                  'AST of /repo on every run; JEDI_VERIF is reserved for future instrumentation',
        'baseline_off_cmd': 'cd /repo && /venv/bin/python -m pytest -ra -q -p no:cacheprovider --timeout=900 '
                            '--continue-on-collection-errors',
        'source_commits': [],
        'add_only': True,
    },
    'engines': [{
        'name': 'pyvc', 'path': 'pyvc/',
        'serves_properties': sorted(CLAIMED),
        'kind_free_text': 'contract-based deductive verification: sidecar contracts (pre/post/raises/frame/loop '
                          'invariants/effects) on the real functions; verification conditions generated from the '
                          'Python ast of /repo on every run by a symbolic executor (PyVC) and discharged by z3 5.1 '
                          'with cvc5 1.0.3 as second back end; counter-models replayed on the real code',
    }],
    'checks': checks,
    'not_applicable': na,
    'notes': 'Exit codes of ./check: 0 held, 1 VIOLATION, 2 undecided (unknown/unsupported/extraction failure), '
             '3 checker failure. Known findings: known_findings.json. See DESIGN.md.',
}
with open(os.path.join(HERE, 'MANIFEST.json'), 'w') as f:
    json.dump(man, f, indent=1)
print('MANIFEST.json: %d checks, %d not applicable' % (len(checks), len(na)))
