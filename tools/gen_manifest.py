#!/usr/bin/env python3
"""Regenerates /verif/MANIFEST.json from the table below (kept valid at all times)."""
import json, os, sys
HERE = os.path.dirname(os.path.dirname(os.path.abspath(__file__)))
props = {}
for l in open(os.path.join(HERE, 'properties.jsonl')):
    p = json.loads(l)
    props[p['id']] = p

# id -> (level text, level note, technique, design_ref)
CLAIMED = {}
sys.path.insert(0, HERE)
from tools.manifest_table import CLAIMED, NOT_APPLICABLE  # noqa

checks = []
# what was added after the table was written: further functions under contract and the bounded stand-ins (A.4)
ADDED = {
    'C01': 'Also: exception-freedom (safety) obligations of CallDetails.calculate_index shared with C11.',
    'C03': 'Also: get_global_filters proved against the class-body rule (enclosing class contexts are skipped).',
    'C08': 'Also: get_parso_cache_node (KeyError iff absent) and the filter constructor (a parser-cache entry is used '
           'as memo key only if it holds this very tree); settings switches restored on every written exit; parse '
           'options passed through unchanged.',
    'C09': 'Also: every get_last_modified defined in jedi/file_io.py returns exactly os.path.getmtime (None iff the '
           'file does not exist) - one contract per definition found on each run.',
    'C11': 'Also: clean_scope_docstring / find_statement_documentation (= inspect.cleandoc of the literal), '
           'Signature.index / params / to_string all use the star-resolved parameter list.',
    'C12': 'Also: get_module_info runs the lookup while sys.path IS the given path (also when it is empty).',
    'C13': 'Also: getattr_static block contract (data-descriptor precedence per the data model), '
           'CompiledValueFilter._get (a name for everything dir() lists; descriptor hits become placeholders), '
           'py__getitem__all_values effect obligations.',
    'C14': 'Also: the reply of the helper is what _send/run/the wrapper return; a Script is marked used BEFORE its '
           'request; the deletion queue is unbounded.',
    'C15': 'Also: goto_import never answers with the queried import name itself (block contract); the recursion-cut '
           'defaults of 16 memoised functions and the two import-cycle guards are in place (inventory).',
    'C16': 'Also: the seven query methods reset the recursion bookkeeping first (frame obligation).',
    'C17': 'Also: _check_fs parses project files found by the text search from bytes decoded per PEP 263.',
    'C18': 'Also: the dotted name of the buffer is derived without the ancestor directories.',
    'C20': 'Also: get_module_info contract shared with C12 ("this path is what import resolution uses").',
}
# round 3: further functions under contract (A.4, A.7)
ADDED3 = {
    'C01': '_complete_getattr return-statement loop proved free of index/attribute errors for return statements of any '
           'shape (stated parso shape preconditions); create_context.from_scope_node handles every scope kind the '
           'enclosing-scope walk can return (async comprehensions included).',
    'C03': 'is_big_annoying_library: only the top-level package name switches flow analysis off; header rule '
           '(_get_global_filters_for_name); get_flow_branch_keyword (a branch is identified by its keyword leaf); '
           'ClassFilter._equals_origin_scope (private attributes visible only from inside the class); '
           'GlobalNameFilter.values (every name of a global statement of the module).',
    'C04': 'memoised-generator round (shared with C15): every consumer of a cached class hierarchy sees all elements; '
           '_BaseTreeInstance.get_filters (a self-attribute filter for every non-compiled MRO class, every class filter '
           'passed on); GlobalNameFilter.values (shared with C03).',
    'C05': 'FolderIO.walk pruning (shared with C19, all subsets of <= 3 sub-folders) and search_in_file_ios: the candidate '
           'scan loses no folder and no passing file; star-import closure (shared with C10); private-attribute visibility '
           '(shared with C03).',
    'C07': 'Structural: Script reads the file behind `path` as bytes (no newline translation before the refactoring); '
           'parse_and_get_code and _check_fs (shared): the text a refactoring rewrites is the text given / the file\'s own bytes.',
    'C09': '_load_python_module: parse through the cache with the file as source; tree and code lines of one cache entry; '
           'parse_and_get_code: the text parsed is the text given or the file as it is now.',
    'C08': 'signature_time_cache wrapper (hit only for an equal, unexpired key; None never stored); parse_and_get_code (shared); '
           'Completion._complete_trailer (the never-invalidated completion cache is switched on for the four named packages only).',
    'C11': 'TreeSignature.get_param_names / bind (self removed after star resolution); keyword-only loop of process_params '
           '(first collected parameter wins); docstring / tree-name replay libraries.',
    'C13': 'filter_names shared with C04 (a name is dropped only as an identical duplicate); key listing replay.',
    'C10': '_prepare_infer_import (imported name split off the from-part, also when it is empty), infer_import (attribute '
           'before sub-module), import_module against a _gcd_import spec function (which finder lookup, with which '
           'arguments; kind of module loaded), transform_path_to_dotted (a shortest candidate, package flag), '
           '_find_module_py33 (interpreter-wide fallback only without a search path), ModuleMixin.star_imports closure '
           '(direct and transitive, unbounded).',
    'C12': 'Structural: the helper gets exactly the caller-configured environment variables; os.environ is read-only. '
           'Project.get_environment (the helper\'s interpreter is the configured or the default one); Project._get_sys_path '
           'shared with C20 (the memoised base path, which is also the import whitelist, is never extended in place).',
    'C14': 'Shared with C08: global-state inventory and the per-call signature cache key (nothing a disturbed query '
           'remembered outlives its Script); structural: the stderr queue is unbounded (cleanup cannot hang in thread.join).',
    'C15': '_memoize_default wrapper (default stored before the function is entered; hit without entering; no stale default '
           'after an exception), _limit_value_infers wrapper (per-node cap), memoised-generator round (sentinel in place '
           'while the generator runs); guarded cores only reachable through their guard (inventory); '
           'BaseFunctionExecutionContext.infer: the return annotation of an ordinary function is evaluated only behind '
           'get_return_values (effect obligation).',
    'C16': 'FolderIO.walk pruning keeps the kept folders in order (shared with C19): project scan order = listing order; '
           'effective-path contracts of C20 (no query changes the path later queries resolve against); goto on a call '
           'keyword collects the parameter of every signature of every callee value.',
    'C17': '_load_python_module (shared with C09); tree names spelled and positioned as their token (replayed on non-NFKC '
           'identifiers); Script reads its file as bytes.',
    'C18': 'create_instance_context: the context of a self.x definition is the method context refined to the innermost '
           'scope around the assignment (1-3 scopes between assignment and class body); FunctionValue.from_context: the '
           'value (context) of a function node is built for that node, @overload declarations only ride along.',
    'C19': 'FolderIO.walk pruning: exactly the entries of removed folders are deleted from os.walk\'s list, others kept '
           'in order (all subsets of <= 3 sub-folders; replayed on a real directory); search_in_file_ios: exactly the '
           'passing files in scan order until a limit. The modules between Project.search and the file list hold no '
           'process-global mutable store (ignore rules and file list are recomputed from the disk on every search; '
           'structural inventory, back end ast).',
    'C20': 'Importer._sys_path_with_modifications: the memoised effective path is never mutated in place (ownership '
           'frame obligation); detected sys.path edits are appended for the lookup only. Project.__init__: every '
           'setting is stored as given (sys_path / added_sys_path entry by entry in order as str, environment_path as '
           'str, both flags, absolute path) - what save() dumps and load() = cls(**data) restores; two argument shapes. Script.__init__ (region): the '
           'script_path handed to the inference state is absolute for every notation of the path argument.',
}
LIBRARY_NOTE = (' A contract whose function can no longer be brought into the subset is not silently undecided: its '
                'executable form is evaluated on the real function over its witness library, a failing input is a '
                'VIOLATION with replay (DESIGN.md A.2).')
STANDIN_NOTE = (' Bounded stand-in on the real code (standins/%s.py; labelled bounded in the evidence, never counted as '
                'proved; scope in DESIGN.md A.4). Solver verdicts are guarded (relevance-filtered axioms, hypotheses '
                'guard with cvc5, covers; thorough tier cross-checks every unsat with z3 4.8.12 and cvc5): DESIGN.md A.6.')
for pid in sorted(CLAIMED):
    text, note, technique, ref = CLAIMED[pid]
    if pid in ADDED:
        text = text + ' ' + ADDED[pid]
    if pid in ADDED3:
        text = text + ' Round 3: ' + ADDED3[pid]
    note = note + LIBRARY_NOTE
    if os.path.exists(os.path.join(HERE, 'standins', pid.lower() + '.py')):
        note = note + STANDIN_NOTE % pid.lower()
        if 'stand-in' not in technique:
            technique = technique + ' + bounded stand-in (executable contracts on the real code, bounded scope)'
    ref = ref + ' and A.4'
    checks.append({
        'property_id': pid,
        'quick_cmd': './check %s --tier quick' % pid,
        'thorough_cmd': './check %s --tier thorough' % pid,
        'evidence_file': 'evidence/%s.json' % pid,
        'replay_cmd_template': './check %s --replay {path}' % pid,
        'engine': 'pyvc',
        'level_claimed': {'category': 'proof', 'text': text, 'design_ref': ref},
        'level_note': note,
        'technique': technique,
    })
na = [{'property_id': pid, 'reason': NOT_APPLICABLE[pid]} for pid in sorted(NOT_APPLICABLE)]
missing = set(props) - set(CLAIMED) - set(NOT_APPLICABLE)
assert not missing, missing
man = {
    'version': 1,
    'setup_cmd': './setup.sh',
    'hooks': {
        'guard': 'JEDI_VERIF',
        'enable': 'no source hooks: contracts are sidecars in /verif/contracts, obligations are generated from the '
                  'AST of /repo on every run; JEDI_VERIF is reserved for future instrumentation',
        'baseline_off_cmd': 'cd /repo && /venv/bin/python -m pytest -ra -q -p no:cacheprovider --timeout=900 '
                            '--continue-on-collection-errors',
        'source_commits': [],
        'add_only': True,
    },
    'engines': [{
        'name': 'pyvc', 'path': 'pyvc/',
        'serves_properties': sorted(CLAIMED),
        'kind_free_text': 'contract-based deductive verification: sidecar contracts (pre/post/raises/frame/loop '
                          'invariants/effects) on the real functions; verification conditions generated from the '
                          'Python ast of /repo on every run by a symbolic executor (PyVC) and discharged by z3 5.1 '
                          'with cvc5 1.0.3 as second back end; counter-models replayed on the real code',
    }],
    'checks': checks,
    'not_applicable': na,
    'notes': 'Exit codes of ./check: 0 held, 1 VIOLATION, 2 undecided (unknown/unsupported/extraction failure), '
             '3 checker failure. Known findings: known_findings.json. See DESIGN.md.',
}
with open(os.path.join(HERE, 'MANIFEST.json'), 'w') as f:
    json.dump(man, f, indent=1)
print('MANIFEST.json: %d checks, %d not applicable' % (len(checks), len(na)))
