#!/usr/bin/env python3
"""fast regression check of the sidecars: every contract of every claimed property must still GENERATE its verification
conditions on /repo (status ok, > 0 obligations) - no solving.  usage: PYTHONPATH=/verif .venv/bin/python tools/gen_smoke.py"""
import json, os, sys
HERE = os.path.dirname(os.path.dirname(os.path.abspath(__file__)))
sys.path.insert(0, HERE)
from pyvc.check import load_property
from pyvc.verify import verify_function
man = json.load(open(os.path.join(HERE, 'MANIFEST.json')))
bad = 0
if len(sys.argv) == 1:
    # one process per property (z3 recursive spec functions are process-global)
    import subprocess
    rc = 0
    for chk in man['checks']:
        rc |= subprocess.call([sys.executable, os.path.abspath(__file__), chk['property_id']],
                              env=dict(os.environ, PYTHONPATH=HERE))
    sys.exit(rc)
for chk in man['checks']:
    P = chk['property_id']
    if P != sys.argv[1]:
        continue
    reg, m = load_property(P)
    cs = list(m.CONTRACTS) + (list(m.dynamic_contracts(os.environ.get('JEDI_REPO', '/repo'))) if hasattr(m, 'dynamic_contracts') else [])
    n = 0
    for c in cs:
        if c.tier == 'thorough-only':
            continue
        try:
            r = verify_function(c, reg)
        except Exception as e:
            print('CRASH', P, c.id, repr(e)[:200]); bad += 1; continue
        n += len(r.obligations)
        if r.status != 'ok' or not r.obligations:
            print('NOT-OK', P, c.id, r.status, r.reason[:160]); bad += 1
    print('%s: %d contracts, %d obligations' % (P, len(cs), n))
sys.exit(1 if bad else 0)
