"""Per-property claim texts for MANIFEST.json (edited as the framework grows)."""

_PENDING = 'contracts for this property are not built yet in this framework revision (planned in DESIGN.md section 6); not claimed until its check exists'

CLAIMED = {
    'C01': (
        'Deductive: the position-validation wrapper every positional Script query sits behind is proved, for all '
        'line lists and all (line, column) incl. None, to raise ValueError exactly for out-of-range positions and '
        'otherwise to enter the query with that very position; AST obligation: every positional query is decorated '
        'with it or passes its position only to one that is; the until-position preludes of extract_variable / '
        'extract_function proved to let only ValueError/RefactoringError escape (index safety); result attributes of '
        'syntax errors are total projections.',
        'Trusted: PyVC encoding of Python semantics (DESIGN 2.4), z3/cvc5, parso split_lines gives a non-empty '
        'line list; exceptions raised inside the inference engine behind the API are NOT decided by contracts (a '
        'bounded stand-in on the real Script runs in the thorough tier and is reported separately).',
        'contract-based deductive verification (PyVC VC generation from the real AST + z3/cvc5) + AST obligation',
        'DESIGN.md 6/C01'),
    'C04': (
        'Deductive: match/_start_match/_fuzzy_match proved equal to the prefix / greedy-subsequence spec for all '
        'strings (recursion with decreases); Completion._complete/complete/name_with_symbols proved: complete is the '
        'missing suffix of name_with_symbols, None when fuzzy; filter_names proved by loop invariant + generator rule: '
        'every yielded completion matches the (case-folded) fragment, carries the length of the fragment as typed, '
        'and no (name, complete) key is yielded twice.',
        'Trusted: PyVC encoding (DESIGN 2.4) incl. str.lower as uninterpreted idempotent function, z3/cvc5, '
        'Completion.__init__ stores its arguments, name objects are pure; attribute completeness (f) and the sort '
        'order of Completion.complete are listed under not_decided until their contracts exist.',
        'contract-based deductive verification (PyVC VC generation from the real AST + z3/cvc5)', 'DESIGN.md 6/C04'),
    'C07': (
        'Deductive: calculate_to_path proved against the path-component spec (moved iff it is the renamed path or '
        'below it; <= 2 renames, symbolic-bounded), get_renames = the given renames sorted, get_new_code = parso '
        'refactor of exactly the mapped nodes, _calculate_rename / _try_relative_to arithmetic for all paths; '
        'effect obligations over api/refactoring: no file-system mutator outside ChangedFile.apply / '
        'Refactoring.apply, contents written before renames, newline="" on the write.',
        'Trusted: pathlib.Path as normalised POSIX strings, parso Grammar.refactor, difflib, builtin sorted; '
        'get_diff body and extract.py exception-escape obligations are listed as not decided until built.',
        'contract-based deductive verification (PyVC) + AST effect obligations', 'DESIGN.md 6/C07'),
    'C10': (
        'Deductive: Importer.__init__ proved equal to importlib._resolve_name on name sequences (level 0 keeps the '
        'path, 0 < level <= len(package) prepends package[:len-level+1]); the candidate generator of '
        'transform_path_to_dotted proved: every derived dotted name, joined to the sys.path entry it came from, is '
        'the module path (directory prefix) with non-empty components.',
        'Trusted: importlib finders (the oracle jedi itself calls), os.path.sep == "/", str split/join inverse, '
        're.sub pure; import_module ordering contracts not yet under contract (not_decided).',
        'contract-based deductive verification (PyVC VC generation from the real AST + z3/cvc5)', 'DESIGN.md 6/C10'),
    'C20': (
        'Deductive, unbounded: _remove_duplicates_from_path proved by loop invariant + generator rule (no entry '
        'twice, nothing invented, every input entry present, first entry stays first); Project._get_sys_path proved '
        'against its composition (project dir first when smart, explicit-or-environment entries, added_sys_path, '
        'script ancestors strictly inside the project) calling the dedup contract; _get_base_sys_path strips only ""; '
        'save/load key-set and JSON-ability obligations decided on the AST.',
        'Trusted: pathlib model, json round trip, memo decorator transparent, discover_buildout_paths abstract; '
        'full order of the middle segment and the consumers of the path are not yet under contract.',
        'contract-based deductive verification (PyVC) + AST obligations', 'DESIGN.md 6/C20'),
    'C15': (
        'Deductive: ExecutionRecursionDetector.push_execution proved against its budget contract under the class '
        'invariant (level == stack depth, 0 <= executions <= total limit): a granted non-builtins execution respects '
        'recursion_limit, consumes exactly one unit of a budget that is never exceeded, and respects the per-function '
        'budgets; pop undoes push; the decorator wrapper restores level and stack on every exit incl. exceptions; '
        'execution_allowed (context manager) yields False iff the node is already on the stack and restores it; '
        'guard inventory (decorators / with-guards / budget reset in every Script query) decided on the AST.',
        'Trusted: wrapped functions are balanced w.r.t. push/pop; limits are read from the current source; that the '
        'guards cut every cycle of the dynamically dispatched call graph, frame-depth RecursionError and cost growth '
        'are not decided.',
        'contract-based deductive verification (PyVC, heap frames on all exits) + AST guard inventory',
        'DESIGN.md 6/C15'),
    'C14': (
        'Deductive: CompiledSubprocess._send proved against its crash contract under explicit I/O contracts '
        '(dump may raise BrokenPipeError, load may raise EOFError or UnpicklingError): every dead-helper path raises '
        'InternalError and nothing else, sets is_crashed and runs the cleanup; a crashed helper is refused without '
        'I/O; only the helper-reported exception may otherwise escape; the flag is untouched on success. _kill, run '
        '(deletion queue drained before the request), delete_inference_state and __del__ (no traffic to a crashed '
        'helper) proved; cleanup layout and crashed-helper replacement decided on the AST.',
        'Trusted: the stated pickle/pipe I/O contracts, weakref.finalize runs _cleanup_process; liveness ("no query '
        'hangs"), OS-level descriptor accounting and thread interleavings are not decided.',
        'contract-based deductive verification (PyVC: exception paths, heap frames, effect traces) + AST obligations',
        'DESIGN.md 6/C14'),
    'C16': (
        'Deductive: the sort key of infer()/get_references() results proved equal to the documented key; lemma: the '
        'key is injective on Name identity (path, position, name), so sorting a set of distinct Names yields one '
        'order independent of hashing; frame obligations on all exits incl. exceptions: reference-search flow flag, '
        'predefined names, dynamic-params depth counter (and, under C15, recursion stack / detector); AST obligations: '
        '_analysis restores is_analysis, queries sort through sorted_definitions, budgets are all reset per query.',
        'Trusted: builtin sorted, str injective on normalised paths; hash-independence of the INPUT order of completion '
        'names, memoised recursion defaults and the shared budget of Name-level follow-up queries are not decided.',
        'contract-based deductive verification (PyVC frames on exceptional exits, block contracts) + z3 lemma',
        'DESIGN.md 6/C16'),
    'C17': (
        'Deductive under assumed parso tree-geometry axioms: line/column are the token position, tree names report '
        'their own token and spelling, definition start <= name start and name end <= definition end with no '
        'exception on the function/class branch, get_line_code returns exactly the window of lines around the name '
        '(the very line for before=after=0), def/ref filter of get_names is the identity for '
        'definitions=references=True.',
        'Trusted: parso geometry axioms (listed in evidence, audited in the thorough tier), names of source modules '
        'carry a position inside code_lines; names without tree position (ImportName/ModuleName at (1,0)) are outside '
        'the contracts (known by-design deviation F14, not claimed).',
        'contract-based deductive verification (PyVC) with assumed parso model', 'DESIGN.md 6/C17'),
    'C19': (
        'Deductive: expand_relative_ignore_paths proved in both directions (an entry prunes <dir>/<entry> exactly in '
        'the folder of its .gitignore and below it; nothing else is pruned), split_search_string against its '
        'string spec (join/split round trip, "def" -> function), the duplicate filter proved to drop only repeats '
        '(loop invariant); AST obligations: ignored folder names, in-place pruning filter, .py/.pyi file filter, '
        'documented limits.',
        'Trusted: os.path.join POSIX model, set iteration as some sequence; FolderIO.walk pruning loop, '
        'gitignored_paths parsing, regex prefilter and search_in_module matching are not yet under contract; '
        '.gitignore FILE entries are not honoured by the code (reading question, not claimed).',
        'contract-based deductive verification (PyVC) + AST obligations', 'DESIGN.md 6/C19'),
    'C11': (
        'Deductive, symbolic-bounded over the property\'s own quantifier: CallDetails.calculate_index proved, for every '
        'well-formed parameter list (kinds, names symbolic) and every call prefix of argument shapes (stars, keys, '
        'flags symbolic), to return an index Python may bind the argument being typed to per the language-reference '
        'binding rule (quick: <= 4 parameters x <= 3 arguments; thorough: <= 6 x <= 5, the full quantifier); '
        'get_kind proved equal to Python\'s kind rule for parameter lists of <= 5 children; to_string\'s separator '
        'placement ("/" after the last positional-only, "*" before the first keyword-only) for <= 4 parameters; '
        'docstring() = signature + blank line + raw docstring proved for all strings.',
        'Trusted: the binding spec is a transcription of the language reference (cross-check with '
        'inspect.Signature.bind_partial is bounded/thorough), parso param nodes have 0..2 stars, param text '
        '(to_string of one parameter) abstract; tree -> argument-shape extraction (_iter_arguments), bracket_start and '
        'wrapper resolution are not yet under contract; "*iterable after keyword" is left unspecified.',
        'contract-based deductive verification (PyVC symbolic-bounded VCs over concrete-length lists, z3/cvc5)',
        'DESIGN.md 6/C11'),
    'C03': (
        'Deductive per-clause contracts of the LEGB mechanism: get_parent_scope proved (symbolic-bounded over '
        'ancestor chains <= 3) to return the nearest scope whose body contains the name, header names going to the '
        'outer scope except the parameter name; is_scope; the position cut (strictly before, all when None); '
        'attribute targets never local; global-statement names; visit order latest-first, drop unreachable, stop at '
        'the first reachable; get_global_filters = innermost first, builtins last, position reset after the first '
        'function/module context (chains <= 3); Status algebra lemmas.',
        'Trusted: parso tree shapes as stated preconditions, reachability_check abstract, sorted/filter models; the '
        'end-to-end agreement of goto with the interpreter for whole programs is not decided (composition).',
        'contract-based deductive verification (PyVC, symbolic-bounded chains) + z3 lemmas', 'DESIGN.md 6/C03'),
    'C18': (
        'Deductive: the parent-scope walk (shared with C03: nearest scope whose body contains the node, header rule) '
        'proved symbolic-bounded; parent() proved to be the Name of the lexically enclosing funcdef/classdef/module '
        'with nameless (comprehension) contexts skipped (<= 2); qualified names proved equal to Python\'s __qualname__ '
        'rule for class nesting (None inside functions); full_name = dotted module path + qualified names; shape of '
        'Script.get_context decided on the AST.',
        'Trusted: contexts/values abstract with pure methods, parso search_ancestor; header positions of get_context '
        'are left unspecified (statement and upstream tests disagree there), create_context composition not decided.',
        'contract-based deductive verification (PyVC) + AST obligation', 'DESIGN.md 6/C18'),
    'C05': (
        'Deductive, unbounded (loop invariants): rename() rewrites exactly the reported references - the node->text '
        'map of every file has exactly the tree names of the reported references of that file as keys (both '
        'inclusions, the second via universally quantified ghost keys), each mapped to its own prefix byte for byte '
        'followed by the new name; module-file references become file renames by the verified _calculate_rename; an '
        'empty list is refused with RefactoringError only; Script.rename passes exactly get_references(..., '
        'include_builtins=False); the reference search restores its flow-analysis switch on every exit.',
        'Trusted: Refactoring.__init__ stores its arguments, nested-dict aliasing modelled by write-back, pathlib '
        'model; closure/partition of get_references (open item F7), rename-back identity and behaviour preservation '
        'are not decided.',
        'contract-based deductive verification (PyVC loop invariants over maps of maps, z3/cvc5)', 'DESIGN.md 6/C05'),
    'C12': (
        'Deductive effect/frame contracts along every chain that can reach an execution primitive: access.load_module '
        '(the only real import) restores sys.path on every exit incl. arbitrary exceptions of the imported code; '
        '_load_builtin_module establishes the callee precondition "only entries of the environment\'s base sys.path '
        'unless load_unsafe_extensions" (call-pre obligation, filter comprehension model); import_module reaches only '
        '{find, parse, restricted builtin loader} whatever the names, auto_import_modules included; get_module_info '
        'restores sys.path; base sys.path strips ""; inventories (AST, whole jedi/): no import/exec/spawn/unpickle '
        'primitive and no write to sys.path/sys.modules/os.environ/cwd outside the registered, contracted sites; '
        'forwarding chain, parse-only loading of python files and the helper start command decided on the AST.',
        'Trusted: __import__ / find_spec contracts, warnings.warn does not raise; interpreter start-up (site, .pth), '
        'third-party meta-path finders and plugin read-only contracts are not decided.',
        'contract-based deductive verification (PyVC effects, frames on exceptional exits) + AST inventories',
        'DESIGN.md 6/C12'),
    'C08': (
        'Deductive coherence contracts with quantified invariants (unbounded): the parent-scope memo and the '
        'definition-name memo are proved coherent - under "every entry equals the fresh computation" the result '
        'equals the fresh computation and the invariant is preserved; path-less buffers bypass both caches; '
        'inventory obligation over all of jedi/: the process-global mutable state is exactly the registered set; every '
        'Script builds a fresh InferenceState owning all inference memo tables and drops expired time caches; the '
        'signature-cache key can never be equal across calls. One known finding (completion_cache, F9).',
        'Trusted: parso replaces a path\'s cache node on every re-parse and ties it to one tree version; '
        'get_parent_scope / is_definition pure; diff-parser correctness is excluded by the property itself.',
        'contract-based deductive verification (PyVC quantified cache invariants) + AST inventory', 'DESIGN.md 6/C08'),
    'C09': (
        'Deductive/structural on jedi\'s side of the property: the import memo (ModuleCache.add/get) is a plain map '
        'owned by the per-Script inference state (proved), created empty per state; imported files are parsed with '
        'their file_io and their code lines taken from that parse; files without given code are read from disk; the '
        'helper restores sys.path; inventory: no other process-global store. One known finding (completion_cache, F9).',
        'Trusted (this is where the property is actually decided): parso.cache mtime revalidation and importlib '
        'FileFinder directory caches - dependencies, assumed; same-tick rewrites not decided.',
        'contract-based deductive verification (PyVC) + AST obligations; thin by nature (see level_note)',
        'DESIGN.md 6/C09'),
    'C13': (
        'Deductive effect contracts: in DirectObjectAccess.py__bool__, has_iter, py__simple_getitem__ and '
        'py__iter__list every operation on the live object that can run user code (truth test, iteration, '
        'subscription) is proved to be reachable only under "unsafe executions requested" or under an EXACT builtin '
        'type test (path-sensitive effect obligations; isinstance-style weakening fails them); AST obligations: the '
        'allowed-type constants contain only builtin types, the setting is copied onto the inference state and has no '
        'other writer, callers pass safe = not allow_unsafe_executions, descriptor hits become empty names, '
        'is_allowed_getattr decides statically, values() asks for every name of dir().',
        'Trusted: getattr_static runs no user code; exact builtin types have no user special methods; normal reads '
        'of __class__/__iter__/__getitem__/__mro__/__bases__ and isinstance()/inspect.* on live objects, '
        'py__getitem__all_values on list/dict subclasses and mixed.py are not decided.',
        'contract-based deductive verification (PyVC path-sensitive effect obligations) + AST obligations',
        'DESIGN.md 6/C13'),
}

NOT_APPLICABLE = {
    'C02': 'needs a formal semantics of Python execution and a soundness proof of the whole abstract interpreter; '
           'no function contract within reach expresses "what the program does when executed" (DESIGN.md 7)',
    'C06': 'program validity/equivalence of refactored text is not a function contract within reach of an SMT back '
           'end; its exception clause is decided under C07 (DESIGN.md 7)',
}
for _p in ['C03', 'C04', 'C05', 'C07', 'C08', 'C09', 'C10', 'C11', 'C12', 'C13', 'C14', 'C15', 'C16', 'C17',
           'C18', 'C19', 'C20']:
    if _p not in CLAIMED:
        NOT_APPLICABLE[_p] = _PENDING
