#!/usr/bin/env python3
"""Mutation self-test of the PyVC contracts (DESIGN A.9): for every function under contract, syntactic mutants of
its body are written into scratch copies of the file and verified with the SAME contract.

usage: tools/mutate.py PROP [PROP...] [--max N] [--procs K] [--json out.json]

A mutant is *killed* if some obligation is no longer discharged (sat -> the check would print VIOLATION; unknown /
unsupported -> the check would exit 2), it *survives* if every obligation is still `unsat`.  Survivors are either
equivalent mutants (e.g. a changed debug message) or show what the contract does not pin down; they are listed so
that they can be read.  Nothing is written to /repo or /verif (scratch dirs under /var/tmp, removed)."""
import ast, copy, json, os, shutil, sys, tempfile, time
import multiprocessing as mp
HERE = os.path.dirname(os.path.dirname(os.path.abspath(__file__)))
sys.path.insert(0, HERE)
REPO = os.environ.get('JEDI_REPO', '/repo')

CMP = {ast.Eq: ast.NotEq, ast.NotEq: ast.Eq, ast.Lt: ast.LtE, ast.LtE: ast.Lt, ast.Gt: ast.GtE, ast.GtE: ast.Gt,
       ast.Is: ast.IsNot, ast.IsNot: ast.Is, ast.In: ast.NotIn, ast.NotIn: ast.In}


def mutants(func):
    """yield (description, mutated copy of func)"""
    nodes = list(ast.walk(func))
    for idx, n in enumerate(nodes):
        def clone():
            f2 = copy.deepcopy(func)
            return f2, list(ast.walk(f2))[idx]
        line = getattr(n, 'lineno', 0)
        if isinstance(n, ast.Compare) and len(n.ops) == 1 and type(n.ops[0]) in CMP:
            f2, m = clone()
            m.ops = [CMP[type(n.ops[0])]()]
            yield 'L%d compare %s -> %s' % (line, type(n.ops[0]).__name__, type(m.ops[0]).__name__), f2
        if isinstance(n, ast.BoolOp):
            f2, m = clone()
            m.op = ast.Or() if isinstance(n.op, ast.And) else ast.And()
            yield 'L%d and<->or' % line, f2
            if len(n.values) >= 2:
                f2, m = clone()
                m.values = m.values[:-1] if len(m.values) > 2 else m.values[:1]
                if len(m.values) == 1:
                    # replace the BoolOp by its first operand
                    class R(ast.NodeTransformer):
                        def visit_BoolOp(self, node):
                            self.generic_visit(node)
                            return node.values[0] if len(node.values) == 1 else node
                    f2 = R().visit(f2)
                yield 'L%d drop last operand of %s' % (line, type(n.op).__name__), ast.fix_missing_locations(f2)
        if isinstance(n, ast.UnaryOp) and isinstance(n.op, ast.Not):
            f2, m = clone()

            class R2(ast.NodeTransformer):
                def __init__(self, target):
                    self.target = target

                def visit_UnaryOp(self, node):
                    if node is self.target:
                        return node.operand
                    self.generic_visit(node)
                    return node
            f2 = R2(m).visit(f2)
            yield 'L%d drop not' % line, ast.fix_missing_locations(f2)
        if isinstance(n, ast.If) and not isinstance(n.test, ast.Constant):
            f2, m = clone()
            m.test = ast.UnaryOp(op=ast.Not(), operand=m.test)
            yield 'L%d negate if condition' % line, ast.fix_missing_locations(f2)
        if isinstance(n, ast.Constant) and isinstance(n.value, int) and not isinstance(n.value, bool):
            f2, m = clone()
            m.value = n.value + 1
            yield 'L%d constant %d -> %d' % (line, n.value, n.value + 1), f2
        if isinstance(n, ast.Constant) and isinstance(n.value, bool):
            f2, m = clone()
            m.value = not n.value
            yield 'L%d constant %r -> %r' % (line, n.value, not n.value), f2
        if isinstance(n, ast.BinOp) and isinstance(n.op, (ast.Add, ast.Sub)):
            f2, m = clone()
            m.op = ast.Sub() if isinstance(n.op, ast.Add) else ast.Add()
            yield 'L%d + <-> -' % line, f2
        if isinstance(n, ast.Return) and n.value is not None and not (isinstance(n.value, ast.Constant) and n.value.value is None):
            f2, m = clone()
            m.value = ast.Constant(value=None)
            yield 'L%d return None' % line, ast.fix_missing_locations(f2)
        # delete a simple statement (assignment / expression / augmented assignment) inside a body of length >= 2
        for field in ('body', 'orelse', 'finalbody'):
            b = getattr(n, field, None)
            if isinstance(b, list) and len(b) >= 2 and all(isinstance(x, ast.stmt) for x in b):
                for k, st in enumerate(b):
                    if isinstance(st, (ast.Assign, ast.AugAssign, ast.Expr)) and not (
                            isinstance(st, ast.Expr) and isinstance(st.value, ast.Constant)):
                        if isinstance(st, ast.Expr) and isinstance(st.value, ast.Call) and \
                                ast.unparse(st.value.func).startswith('debug.'):
                            continue
                        f2, m = clone()
                        del getattr(m, field)[k]
                        yield 'L%d delete statement `%s`' % (st.lineno, ast.unparse(st)[:50]), f2


def run_one(job):
    prop, cids, rel, qualname, desc, new_src = job
    last = None
    for cid in cids:
        last = run_contract((prop, cid, rel, qualname, desc, new_src))
        if last[3] == 'killed':
            break
    return (prop, '%s:%s' % (rel.split('/')[-1], qualname), desc, last[3], last[4])


def run_contract(job):
    prop, cid, rel, qualname, desc, new_src = job
    from pyvc.check import load_property
    from pyvc.verify import verify_function
    from pyvc.smt import obligation_smt2, _solve
    tmp = tempfile.mkdtemp(prefix='mut_', dir='/var/tmp')
    try:
        os.makedirs(os.path.dirname(os.path.join(tmp, rel)), exist_ok=True)
        with open(os.path.join(tmp, rel), 'w') as f:
            f.write(new_src)
        reg, m = load_property(prop)
        cs = list(m.CONTRACTS) + (list(m.dynamic_contracts(REPO)) if hasattr(m, 'dynamic_contracts') else [])
        c = [x for x in cs if x.id == cid][0]
        try:
            fr = verify_function(c, reg, tmp)
        except Exception as e:
            return (prop, cid, desc, 'killed', 'engine: %s' % type(e).__name__)
        if fr.status != 'ok':
            return (prop, cid, desc, 'killed', 'undecided: %s' % fr.reason[:80])
        if not fr.obligations:
            return (prop, cid, desc, 'killed', 'zero obligations')
        for i, o in enumerate(fr.obligations):
            r = _solve((i, obligation_smt2(fr.axioms, o), 10, True))
            if r['result'] != 'unsat':
                return (prop, cid, desc, 'killed', '%s %s: %s' % (r['result'], o.kind, o.label[:60]))
        # the same guards as ./check: hypotheses refuted by z3 only, unreachable exits (vacuity)
        from pyvc.smt import hypotheses_guard, exprs_to_smt2
        withdrawn, _ = hypotheses_guard(lambda ob: fr.axioms, fr.obligations, procs=1)
        if withdrawn:
            return (prop, cid, desc, 'killed', 'hypotheses guard: path condition refuted by z3 only')
        V = fr.verifier
        if c.cover and V is not None:
            kinds = {}
            for kind, st, val in V.exits:
                kinds.setdefault(kind, st)
            if not kinds:
                return (prop, cid, desc, 'killed', 'vacuous: no exit')
            for kind, st in kinds.items():
                r = _solve((0, exprs_to_smt2(list(fr.axioms) + list(st.pc)), 10, True))
                if r['result'] == 'unsat':
                    return (prop, cid, desc, 'killed', 'vacuous: exit %s unreachable' % kind)
        return (prop, cid, desc, 'survived', '')
    finally:
        shutil.rmtree(tmp, ignore_errors=True)


def main():
    args = sys.argv[1:]
    props = [a for a in args if a.startswith('C')]
    mx = int(args[args.index('--max') + 1]) if '--max' in args else 40
    procs = int(args[args.index('--procs') + 1]) if '--procs' in args else 12
    out_json = args[args.index('--json') + 1] if '--json' in args else None
    from pyvc.check import load_property
    from pyvc.verify import find_function
    import random
    jobs = []
    for prop in props:
        reg, m = load_property(prop)
        cs = list(m.CONTRACTS) + (list(m.dynamic_contracts(REPO)) if hasattr(m, 'dynamic_contracts') else [])
        groups = {}
        for c in cs:
            if c.tier == 'thorough-only':
                continue
            groups.setdefault((c.file, c.qualname, id(c.region) if c.region is not None else None), []).append(c)
        for (_f, _q, _r), group in groups.items():
            c = group[0]
            path = os.path.join(REPO, c.file)
            src = open(path, encoding='utf-8').read()
            tree = ast.parse(src)
            func = find_function(tree, c.qualname)
            if func is None:
                continue
            region = None
            if c.region is not None:
                region = c.region(func)
                lines = {getattr(n, 'lineno', None) for s_ in (region or []) for n in ast.walk(s_)}
            ms = list(mutants(func))
            if region is not None:
                ms = [(d, f2) for d, f2 in ms if int(d[1:].split()[0]) in lines]
            random.Random(7).shuffle(ms)
            for desc, f2 in ms[:mx]:
                # splice the mutated function back into the module text
                seg_lines = src.splitlines(keepends=True)
                indent = ' ' * func.col_offset
                new_fn = ast.unparse(ast.fix_missing_locations(f2))
                new_fn = ''.join(indent + l + '\n' for l in new_fn.splitlines())
                start = (func.decorator_list[0].lineno if func.decorator_list else func.lineno) - 1
                new_src = ''.join(seg_lines[:start]) + new_fn + ''.join(seg_lines[func.end_lineno:])
                try:
                    ast.parse(new_src)
                except SyntaxError:
                    continue
                # larger shapes first: they exercise more of the body
                jobs.append((prop, [x.id for x in reversed(group)], c.file, c.qualname, desc, new_src))
    t0 = time.time()
    with mp.get_context('fork').Pool(procs) as pool:
        results = pool.map(run_one, jobs, chunksize=1)
    by = {}
    for prop, cid, desc, verdict, why in results:
        by.setdefault((prop, cid), []).append((desc, verdict, why))
    tot_k = tot = 0
    report = {}
    for (prop, cid), rs in sorted(by.items()):
        k = sum(1 for r in rs if r[1] == 'killed')
        tot_k += k
        tot += len(rs)
        surv = [r[0] for r in rs if r[1] == 'survived']
        print('%-58s mutants %3d killed %3d  survived: %s' % (cid, len(rs), k, '; '.join(surv)[:230]))
        report[cid] = {'mutants': len(rs), 'killed': k, 'survivors': surv,
                       'killed_by_sat': sum(1 for r in rs if r[2].startswith('sat'))}
    print('TOTAL mutants %d killed %d (%.0f%%) in %.0fs' % (tot, tot_k, 100.0 * tot_k / max(tot, 1), time.time() - t0))
    if out_json:
        json.dump(report, open(out_json, 'w'), indent=1)


if __name__ == '__main__':
    main()
