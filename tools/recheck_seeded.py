#!/usr/bin/env python3
"""Re-run our checks against a stored seeded change (/verif/seeded/<id>/) on /repo's current HEAD.

usage: tools/recheck_seeded.py <seed-id> [extra props...]
The patch is applied to a scratch worktree (removed afterwards); the demo is re-run on the clean and the patched tree
(a change that no longer breaks the property on the current HEAD - e.g. because a later fix covers it - is recorded as
neutralised); the earlier result is kept under `history`."""
import json, os, shutil, subprocess, sys, tempfile
HERE = os.path.dirname(os.path.dirname(os.path.abspath(__file__)))
sid = sys.argv[1]
prop = sid.split('-')[0]
extra = [a for a in sys.argv[2:] if a.startswith('C')]
d = os.path.join(HERE, 'seeded', sid)
meta = json.load(open(os.path.join(d, 'meta.json')))
head = subprocess.check_output(['git', '-C', '/repo', 'rev-parse', '--short', 'HEAD'], text=True).strip()
clean = tempfile.mkdtemp(prefix='re_clean_', dir='/var/tmp'); os.rmdir(clean)
pat = tempfile.mkdtemp(prefix='re_pat_', dir='/var/tmp'); os.rmdir(pat)
res = {}
try:
    for t in (clean, pat):
        subprocess.check_call(['git', '-C', '/repo', 'worktree', 'add', '-q', '--detach', t, 'HEAD'])
    ap = subprocess.run(['git', '-C', pat, 'apply', '--3way', os.path.join(d, 'patch.diff')], capture_output=True, text=True)
    if ap.returncode != 0:
        ap = subprocess.run(['patch', '-p1', '-d', pat, '-i', os.path.join(d, 'patch.diff')], capture_output=True, text=True)
    res['patch_applies'] = ap.returncode == 0

    def demo(tree):
        p = subprocess.run(['/venv/bin/python', os.path.join(d, 'demo.py')], cwd=tree, capture_output=True, text=True,
                           timeout=900, env=dict(os.environ, PYTHONPATH=tree))
        return p.returncode
    if res['patch_applies']:
        res['demo_clean_exit'] = demo(clean)
        res['demo_patched_exit'] = demo(pat)
        checks = {}
        for pr in [prop] + extra:
            env = dict(os.environ, JEDI_REPO=pat, VERIF_EVIDENCE_DIR=os.path.join(pat, '_evidence'))
            p = subprocess.run([os.path.join(HERE, 'check'), pr], env=env, capture_output=True, text=True)
            checks[pr] = {'exit': p.returncode,
                          'lines': [l for l in p.stdout.splitlines() if l.startswith(('VIOLATION', 'UNDECIDED', 'CHECKER', pr + ' tier'))][:8]}
        res['checks'] = checks
        res['detected'] = any(c['exit'] == 1 for c in checks.values())
finally:
    for t in (clean, pat):
        subprocess.run(['git', '-C', '/repo', 'worktree', 'remove', '--force', t], capture_output=True)
        shutil.rmtree(t, ignore_errors=True)
old = meta.get('confirmed_by_us', {})
meta.setdefault('history', []).append({'repo_head': old.get('repo_head', 'earlier'), 'detected': old.get('detected'),
                                       'checks': {k: v.get('exit') for k, v in old.get('checks', {}).items()}})
new = dict(old)
new.update(res)
new['repo_head'] = head
if res.get('patch_applies') and res.get('demo_patched_exit') == 0 and res.get('demo_clean_exit') == 0:
    new['neutralised'] = 'no longer breaks the property on HEAD %s (demo passes with the change applied)' % head
elif not res.get('patch_applies'):
    new['neutralised'] = 'patch no longer applies to HEAD %s' % head
else:
    new.pop('neutralised', None)
meta['confirmed_by_us'] = new
json.dump(meta, open(os.path.join(d, 'meta.json'), 'w'), indent=1)
print(sid, 'applies', res.get('patch_applies'), 'demo clean/patched', res.get('demo_clean_exit'), res.get('demo_patched_exit'),
      'detected', res.get('detected'), {k: v['exit'] for k, v in res.get('checks', {}).items()}, new.get('neutralised', ''))
