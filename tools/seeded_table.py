#!/usr/bin/env python3
"""prints the markdown table of DESIGN.md A.8 from /verif/seeded/*/meta.json"""
import json, os, glob
HERE = os.path.dirname(os.path.dirname(os.path.abspath(__file__)))
rows = []
stats = {'total': 0, 'caught': 0, 'undecided': 0, 'missed': 0, 'neutralised': 0, 'first_caught': 0}
for d in sorted(glob.glob(os.path.join(HERE, 'seeded', '*'))):
    try:
        m = json.load(open(os.path.join(d, 'meta.json')))
    except Exception:
        continue
    c = m.get('confirmed_by_us', {})
    checks = c.get('checks', {})
    caught = []
    for pr, r in checks.items():
        for l in r.get('lines', []):
            if l.startswith('VIOLATION'):
                rep = l.split('replay=')[1].split()[0]
                caught.append(os.path.basename(rep).replace('.json', '') + (' (no input)' if l.endswith('no-failing-input-found') else ''))
    hist = m.get('history', [])
    first = hist[0] if hist else {'detected': c.get('detected')}
    first_txt = 'caught' if first.get('detected') else ('undecided' if 2 in (first.get('checks') or {}).values() else 'missed')
    if c.get('neutralised'):
        status = 'n/a (' + c['neutralised'].split(' on HEAD')[0] + ')'
        stats['neutralised'] += 1
    elif c.get('detected'):
        status = 'caught'
        stats['caught'] += 1
    elif any(r.get('exit') == 2 for r in checks.values()):
        status = 'undecided (exit 2)'
        stats['undecided'] += 1
    else:
        status = 'MISSED'
        stats['missed'] += 1
    stats['total'] += 1
    stats['first_caught'] += 1 if first.get('detected') else 0
    rows.append('| %s | %s | %s | %s | %s |' % (os.path.basename(d), (m.get('summary') or '')[:150].replace('|', '/').replace('\n', ' '),
                                              first_txt, status, '; '.join(caught[:2])[:120]))
print('%d confirmed changes: at first evaluation %d caught; on the final tree %d caught, %d undecided (exit 2), %d missed, '
      '%d neutralised by a later fix.\n' % (stats['total'], stats['first_caught'], stats['caught'], stats['undecided'],
                                             stats['missed'], stats['neutralised']))
print('| seed | change (sub-agent\'s summary) | first result | final result | obligations / stand-in that fired |')
print('|---|---|---|---|---|')
print('\n'.join(rows))
