#!/usr/bin/env python3
"""prints the markdown table of DESIGN.md A.8 from /verif/seeded/*/meta.json"""
import json, os, glob
HERE = os.path.dirname(os.path.dirname(os.path.abspath(__file__)))
rows = []
for d in sorted(glob.glob(os.path.join(HERE, 'seeded', '*'))):
    try:
        m = json.load(open(os.path.join(d, 'meta.json')))
    except Exception:
        continue
    c = m.get('confirmed_by_us', {})
    checks = c.get('checks', {})
    caught = []
    for pr, r in checks.items():
        for l in r.get('lines', []):
            if l.startswith('VIOLATION'):
                rep = l.split('replay=')[1].split()[0]
                caught.append(os.path.basename(rep).replace('.json', '') + (' (no input)' if l.endswith('no-failing-input-found') else ''))
    status = 'caught' if c.get('detected') else ('undecided (exit 2)' if any(r.get('exit') == 2 for r in checks.values()) else 'MISSED')
    if c.get('neutralised'):
        status = 'n/a: ' + c['neutralised']
    rows.append('| %s | %s | %s | %s |' % (os.path.basename(d), (m.get('summary') or '')[:170].replace('|', '/'), status,
                                         '; '.join(caught[:3])[:160]))
print('| seed | change (sub-agent\'s summary) | result | obligations / stand-in that fired |')
print('|---|---|---|---|')
print('\n'.join(rows))
