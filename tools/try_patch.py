#!/usr/bin/env python3
"""Apply a patch (or python-style replacement) to a scratch copy of /repo/jedi and run checks there.
usage: tools/try_patch.py <patch.diff | file§§§old§§§new> PROP [PROP...]
The scratch copy lives in a fresh temp dir outside /repo and /verif and is removed afterwards."""
import os, shutil, subprocess, sys, tempfile
HERE = os.path.dirname(os.path.dirname(os.path.abspath(__file__)))
spec = sys.argv[1]
props = sys.argv[2:]
tmp = tempfile.mkdtemp(prefix='jedi_scratch_', dir='/var/tmp')
try:
    shutil.copytree('/repo/jedi', os.path.join(tmp, 'jedi'))
    shutil.copytree('/repo/test', os.path.join(tmp, 'test')) if False else None
    if '§§§' in spec:
        f, old, new = spec.split('§§§')
        p = os.path.join(tmp, f)
        s = open(p).read()
        assert old in s, 'pattern not found'
        open(p, 'w').write(s.replace(old, new, 1))
    else:
        subprocess.check_call(['patch', '-p1', '-s', '-d', tmp, '-i', os.path.abspath(spec)])
    env = dict(os.environ, JEDI_REPO=tmp, VERIF_EVIDENCE_DIR=os.path.join(tmp, 'evidence'))
    rc = 0
    for pr in props:
        p = subprocess.run([os.path.join(HERE, 'check'), pr], env=env, capture_output=True, text=True)
        print(p.stdout.strip())
        print('  -> exit', p.returncode)
        rc = max(rc, p.returncode)
    # evidence files were overwritten by the scratch run: restore by re-running on /repo is the caller's job
finally:
    shutil.rmtree(tmp, ignore_errors=True)
