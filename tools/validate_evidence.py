"""Validate every evidence/<id>.json that MANIFEST.json names: EVIDENCE.schema.json, and - for the proof level claimed -
obligations == discharged > 0, violations == 0, generated from /repo (not a scratch tree).  Run before committing
evidence:   .venv/bin/python tools/validate_evidence.py        exit 0 = every file is a valid record of a held run
"""
import json
import os
import sys

import jsonschema

HERE = os.path.dirname(os.path.dirname(os.path.abspath(__file__)))
SCHEMA = '/root/.vp/EVIDENCE.schema.json'


def main():
    man = json.load(open(os.path.join(HERE, 'MANIFEST.json')))
    schema = json.load(open(SCHEMA)) if os.path.exists(SCHEMA) else None
    bad = 0
    for chk in man['checks']:
        pid, path = chk['property_id'], os.path.join(HERE, chk['evidence_file'])
        problems = []
        try:
            ev = json.load(open(path))
        except Exception as e:
            print('%s: unreadable (%s)' % (pid, e))
            bad += 1
            continue
        if schema is not None:
            problems += [e.message[:120] for e in jsonschema.Draft202012Validator(schema).iter_errors(ev)]
        cov = ev.get('coverage', {})
        if ev.get('property_id') != pid:
            problems.append('property_id %r' % ev.get('property_id'))
        if ev.get('level') != chk['level_claimed']['category']:
            problems.append('level %r differs from the manifest' % ev.get('level'))
        if not cov.get('obligations') or cov.get('obligations') != cov.get('discharged'):
            problems.append('discharged (%s) != obligations (%s)' % (cov.get('discharged'), cov.get('obligations')))
        if ev.get('violations'):
            problems.append('%s violation(s): this is not a record of the unchanged tree' % ev['violations'])
        if cov.get('undecided'):
            problems.append('%d undecided obligation(s)' % len(cov['undecided']))
        tree = cov.get('tree')
        if tree is not None and tree.get('path') != '/repo':
            problems.append('generated from %s, not /repo' % tree.get('path'))
        print('%s: %s' % (pid, 'ok (%d obligations)' % cov.get('obligations', 0) if not problems
                          else '; '.join(problems)))
        bad += bool(problems)
    return 1 if bad else 0


if __name__ == '__main__':
    sys.exit(main())
